"""known_findings.json: committed, never written at run time.

entries: [{"status": "known"|"fixed", "property": "C17", "signature": "...", "what": "...", "replay": "replays/..", "commit": "..."}]
A `known` entry suppresses only violations with exactly its signature (root-cause key); `fixed` entries suppress nothing.
"""
import json
import os

VERIF = os.path.dirname(os.path.dirname(os.path.abspath(__file__)))
PATH = os.path.join(VERIF, "known_findings.json")


def load() -> list:
    if not os.path.exists(PATH):
        return []
    return json.load(open(PATH)).get("entries", [])


def known_signatures(entries: list, prop: str) -> set:
    return {e["signature"] for e in entries if e.get("property") == prop and e.get("status") == "known"}
