"""Re-executes one replay file through the property's plain check function (no Hypothesis involved)."""
from __future__ import annotations

import argparse
import importlib
import json
import os
import shutil
import sys
import traceback

from . import core
from .core import Ctx, Violation


def main() -> int:
    ap = argparse.ArgumentParser()
    ap.add_argument("--prop", required=True)
    ap.add_argument("--file", required=True)
    ap.add_argument("--repo", required=True)
    ap.add_argument("--out", required=True)
    a = ap.parse_args()
    rec = {"status": "error"}
    try:  # the same address-space limit the workers run under: a runaway allocation becomes a MemoryError inside the case
        import resource

        _soft, _hard = resource.getrlimit(resource.RLIMIT_AS)
        # (a replay about running out of memory may ask for a smaller limit so that it gets there in seconds instead of a minute)
        _mb = int(json.load(open(a.file)).get("address_space_mb", 4096))
        resource.setrlimit(resource.RLIMIT_AS, (_mb * 2**20, _hard))
    except (ImportError, ValueError, OSError):
        pass
    scratch = core.make_scratch_root("replay")
    try:
        import pydsdl

        here = os.path.realpath(os.path.dirname(pydsdl.__file__))
        if not here.startswith(os.path.realpath(a.repo) + os.sep):
            raise core.HarnessError("pydsdl imported from %s, not from %s" % (here, a.repo))
        body = json.load(open(a.file))
        mod = importlib.import_module("vf.props.%s" % a.prop.lower())
        ctx = Ctx(prop=a.prop, tier="replay", seed=0, shard=0, nshards=1, repo=a.repo, scratch_root=scratch)
        part = {p.name: p for p in core.all_parts(mod, ctx)}[body["part"]]
        try:
            part.check(body["case"], ctx)
            rec = {"status": "pass"}
        except BaseException as ex:  # pylint: disable=broad-except
            from .worker import _to_violation

            v = _to_violation(ex)
            if v is None:
                raise
            rec = {"status": "fail", "signature": v.signature, "expected": core.jsonable(v.expected),
                   "observed": core.jsonable(v.observed), "detail": v.detail}
    except BaseException as ex:  # pylint: disable=broad-except
        rec = {"status": "error", "error": "%s: %s\n%s" % (type(ex).__name__, ex, traceback.format_exc()[-3000:])}
    finally:
        shutil.rmtree(scratch, ignore_errors=True)
    json.dump(rec, open(a.out, "w"), default=str)
    return 0


if __name__ == "__main__":
    sys.exit(main())
