"""Parent side of a check: regression replays, shards in fresh interpreters, merge, evidence, exit code."""
from __future__ import annotations

import importlib
import json
import os
import re
import subprocess
import sys
import tempfile
import time
import typing

from . import core, deps, findings

VERIF = os.path.dirname(os.path.dirname(os.path.abspath(__file__)))
WALL_CAP = {"quick": 15 * 60, "thorough": 3 * 3600}


def repo_path() -> str:
    return os.path.realpath(os.environ.get("VERIF_REPO", "/repo"))


def child_env(repo: str, hashseed: str = "0") -> dict:
    env = dict(os.environ)
    env["PYTHONPATH"] = os.pathsep.join([repo, os.path.join(VERIF, ".deps"), VERIF])
    env["PYTHONHASHSEED"] = hashseed
    env["PYTHONDONTWRITEBYTECODE"] = "1"
    env.pop("PYDSDL_POISON_SLOW_EXPANSION_SECONDS", None)
    return env


def repo_revision(repo: str) -> str:
    try:
        rev = subprocess.run(["git", "-C", repo, "rev-parse", "--short", "HEAD"], capture_output=True, text=True).stdout.strip()
        dirty = subprocess.run(["git", "-C", repo, "status", "--porcelain", "--untracked-files=no"], capture_output=True, text=True).stdout.strip()
        return rev + ("+dirty" if dirty else "")
    except Exception:  # pylint: disable=broad-except
        return "unknown"


def _slug(s: str) -> str:
    return re.sub(r"[^A-Za-z0-9_.-]+", "_", s)[:60]


def run_replay_file(prop: str, path: str, repo: str) -> typing.Tuple[str, typing.Optional[dict]]:
    """Runs one replay in a fresh interpreter.  Returns ('pass'|'fail'|'error', record)."""
    with tempfile.TemporaryDirectory(prefix="pydsdl-verif-replay-") as td:
        out = os.path.join(td, "r.json")
        cmd = [sys.executable, "-m", "vf.replay", "--prop", prop, "--file", os.path.abspath(path), "--repo", repo, "--out", out]
        p = subprocess.run(cmd, cwd=VERIF, env=child_env(repo), capture_output=True, text=True, timeout=1800)
        if not os.path.exists(out):
            return "error", {"error": (p.stderr or p.stdout)[-3000:]}
        rec = json.load(open(out))
        return rec["status"], rec


def check(prop: str, tier: str, seed: int, nshards: int = 16, scale: float = 1.0, only_part: str = "") -> int:
    t0 = time.time()
    deps.ensure(optional=(tier != "quick"))  # the thorough tier runs atheris campaigns
    repo = repo_path()
    mod = importlib.import_module("vf.props.%s" % prop.lower())
    known_all = findings.load()
    known = findings.known_signatures(known_all, prop)
    lines: typing.List[str] = []
    violations: typing.List[dict] = []
    harness_errors: typing.List[str] = []
    known_hits: typing.Dict[str, int] = {}

    # ---- 1. regression tier: committed replays (bypass the library)
    rdir = os.path.join(VERIF, "replays", prop)
    replays_rerun = 0
    if os.path.isdir(rdir):
        import concurrent.futures

        names = [fn for fn in sorted(os.listdir(rdir)) if fn.endswith(".json") and not fn.startswith("found-")]
        with concurrent.futures.ThreadPoolExecutor(max_workers=8) as pool:  # each replay is a fresh interpreter of its own
            outcomes = list(pool.map(lambda fn: run_replay_file(prop, os.path.join(rdir, fn), repo), names))
        for fn, (status, rec) in zip(names, outcomes):
            path = os.path.join(rdir, fn)
            replays_rerun += 1
            sig = (rec or {}).get("signature")
            if status == "pass":
                continue
            if status == "fail":
                if sig in known:
                    known_hits[sig] = known_hits.get(sig, 0) + 1
                else:
                    violations.append({"signature": sig, "replay": os.path.relpath(path, VERIF), "source": "regression",
                                       "expected": rec.get("expected"), "observed": rec.get("observed")})
            else:
                harness_errors.append("replay %s: %s" % (fn, (rec or {}).get("error")))

    # ---- 2. generated search, one fresh interpreter per shard
    results: typing.List[dict] = []
    inconclusive = 0
    scratch_parent = core.make_scratch_root(prop)
    with tempfile.TemporaryDirectory(prefix="pydsdl-verif-%s-" % prop, dir=scratch_parent) as td:
        procs = []
        for sh in range(nshards):
            out = os.path.join(td, "shard%d.json" % sh)
            cmd = [sys.executable, "-m", "vf.worker", "--prop", prop, "--tier", tier, "--shard", str(sh), "--nshards", str(nshards),
                   "--seed", str(seed), "--repo", repo, "--out", out, "--scale", str(scale), "--known", json.dumps({k: 1 for k in known}), "--scratch", scratch_parent]
            if only_part:
                cmd += ["--only-part", only_part]
            log = open(os.path.join(td, "shard%d.log" % sh), "w")
            procs.append((sh, out, subprocess.Popen(cmd, cwd=VERIF, env=child_env(repo), stdout=log, stderr=subprocess.STDOUT), log))
        deadline = t0 + WALL_CAP[tier]
        for sh, out, p, log in procs:
            try:
                p.wait(timeout=max(1.0, deadline - time.time()))
            except subprocess.TimeoutExpired:
                p.kill()
                p.wait()
                inconclusive += 1
                log.close()
                continue
            log.close()
            if os.path.exists(out):
                r = json.load(open(out))
                if os.path.exists(out + ".fp"):
                    r["_fp"] = open(out + ".fp", "rb").read()
                results.append(r)
            else:
                harness_errors.append("shard %d produced no result: %s" % (sh, open(log.name).read()[-2000:]))

    import shutil

    shutil.rmtree(scratch_parent, ignore_errors=True)
    nontrivial: typing.Set[bytes] = set()
    evaluations = 0
    classes: typing.Dict[str, int] = {}
    samples: typing.List[typing.Any] = []
    parts: typing.Dict[str, dict] = {}
    extra: typing.Dict[str, typing.Any] = {}
    for r in results:
        if r.get("status") != "ok":
            harness_errors.append("shard %s: %s\n%s" % (r.get("shard"), r.get("error"), r.get("traceback", "")))
            continue
        evaluations += r["evaluations"]
        fp = r.get("_fp", b"")
        for i in range(0, len(fp), 8):
            nontrivial.add(fp[i : i + 8])
        for k, v in r["classes"].items():
            classes[k] = classes.get(k, 0) + v
        for k, v in r["known"].items():
            known_hits[k] = known_hits.get(k, 0) + v
        for k, v in r["parts"].items():
            d = parts.setdefault(k, {"evaluations": 0, "nontrivial": 0, "wall_s_max": 0.0})
            d["evaluations"] += v.get("evaluations", 0)
            d["nontrivial"] += v.get("nontrivial", 0)
            d["wall_s_max"] = max(d["wall_s_max"], v.get("wall_s", 0.0))
            d["budget_per_shard"] = v.get("budget")
            if v.get("slowest_s", 0) > d.get("slowest_s", 0):
                d["slowest_s"] = v["slowest_s"]
                if "slowest_case" in v:
                    d["slowest_case"] = v["slowest_case"]
            for key in ("timeouts", "fuzz_execs", "fuzz_raw_findings", "fuzz_nontrivial"):
                if key in v:
                    d[key] = d.get(key, 0) + v[key]
            if "fuzz" in v:  # a campaign that was skipped or cut short says so
                d.setdefault("fuzz_notes", [])
                if v["fuzz"] not in d["fuzz_notes"]:
                    d["fuzz_notes"].append(v["fuzz"])
            if "fuzz_corpus" in v:
                d["fuzz_corpora"] = sorted(set(d.get("fuzz_corpora", [])) | {v["fuzz_corpus"]})
            if v.get("aborted_inconclusive"):
                d["aborted_inconclusive"] = d.get("aborted_inconclusive", 0) + 1
        for k, v in (r.get("extra") or {}).items():
            if isinstance(v, (int, float)):
                extra[k] = extra.get(k, 0) + v
            else:
                extra.setdefault(k, v)
        samples.extend(r["samples"][:1])
        for v in r["violations"]:
            violations.append(v)
    if len(samples) > 8:
        samples = samples[:8]

    # ---- 3. one replay file per root cause (smallest case wins)
    by_sig: typing.Dict[str, dict] = {}
    for v in violations:
        if "case" not in v:
            by_sig.setdefault("regression:" + str(v.get("signature")), v)
            continue
        cur = by_sig.get(v["signature"])
        size = len(json.dumps(v["case"], default=str))
        if cur is None or size < cur["_size"]:
            v["_size"] = size
            by_sig[v["signature"]] = v
    os.makedirs(rdir, exist_ok=True)
    rev = repo_revision(repo)
    for sig, v in sorted(by_sig.items()):
        if "case" in v:
            body = {"property": prop, "part": v["part"], "signature": v["signature"], "case": v["case"], "expected": v["expected"],
                    "observed": v["observed"], "detail": v.get("detail", ""), "seed": seed, "shard": v["shard"], "tier": tier,
                    "repo_revision": rev}
            name = "found-%s-%s.json" % (_slug(v["signature"]), core.fingerprint(v["case"])[:10])
            path = os.path.join(rdir, name)
            with open(path, "w") as f:
                json.dump(body, f, indent=1, default=str)
            rel = os.path.relpath(path, VERIF)
        else:
            rel = v["replay"]
        lines.append("VIOLATION property=%s replay=%s" % (prop, rel))
        lines.append("  signature: %s" % v.get("signature"))
        lines.append("  expected:  %s" % json.dumps(v.get("expected"), default=str)[:400])
        lines.append("  observed:  %s" % json.dumps(v.get("observed"), default=str)[:400])

    for e in known_all:
        if e.get("property") == prop and e.get("status") == "known" and e["signature"] in known_hits:
            lines.append("KNOWN-FINDING: property=%s %s [%s, hit %d times]" % (prop, e["what"], e["signature"], known_hits[e["signature"]]))
    for e in known_all:
        if e.get("property") == prop and e.get("status") == "known" and e["signature"] not in known_hits:
            lines.append("NOTE: listed known finding not reproduced in this run: %s" % e["signature"])

    ok_shards = sum(1 for r in results if r.get("status") == "ok")
    wall = time.time() - t0
    ev = {
        "property_id": prop,
        "tier": tier,
        "seed": seed,
        "level": "exploration",
        "coverage": {
            "evaluations": evaluations,
            "distinct_nontrivial": len(nontrivial),
            "rule": mod.RULE,
            "samples": samples,
            "classes": dict(sorted(classes.items())),
            "parts": parts,
            "excluded_known": known_hits,
            "shards": nshards,
            "shards_completed": ok_shards,
            "shards_inconclusive": inconclusive,
            "replays_rerun": replays_rerun,
            "budget_examples_per_shard": mod.BUDGET[tier] * scale,
            "repo_revision": rev,
            "counters": extra,
        },
        "assumptions": list(getattr(mod, "ASSUMPTIONS", [])),
        "wall_s": round(wall, 2),
        "violations": len(by_sig),
    }
    # Runs against a scratch copy of the repository (tools/seeded.py, tools/mut.py) set VERIF_EVIDENCE_DIR so that they do not replace the
    # evidence of the tree the checks are registered for.
    evdir = os.environ.get("VERIF_EVIDENCE_DIR") or os.path.join(VERIF, "evidence")
    os.makedirs(evdir, exist_ok=True)
    if evaluations > 0 and not only_part:
        with open(os.path.join(evdir, "%s.json" % prop), "w") as f:
            json.dump(ev, f, indent=1, default=str)

    for ln in lines:
        print(ln)
    print("%s %s seed=%d: %d cases, %d distinct non-trivial, %d violation(s), %d/%d shards ok, %.1fs" % (
        prop, tier, seed, evaluations, len(nontrivial), len(by_sig), ok_shards, nshards, wall))
    for k, d in parts.items():
        print("  part %-22s %7d cases %7d nontrivial  %.1fs  slowest case %.2fs%s" % (
            k, d["evaluations"], d["nontrivial"], d["wall_s_max"], d.get("slowest_s", 0.0),
            ("  timeouts=%d" % d["timeouts"]) if d.get("timeouts") else ""))
    if by_sig:
        for e in harness_errors[:3]:
            print("HARNESS-NOTE (a shard failed besides the violations above) %s" % e[:3000])
        return 1
    if harness_errors or ok_shards * 2 < nshards:
        for e in harness_errors[:5]:
            print("HARNESS-ERROR %s" % e)
        return 2
    return 0


def replay(prop: str, path: str) -> int:
    deps.ensure()
    repo = repo_path()
    status, rec = run_replay_file(prop, path, repo)
    if status == "pass":
        print("replay %s: property holds for this case" % path)
        return 0
    if status == "fail":
        known = findings.known_signatures(findings.load(), prop)
        if rec.get("signature") in known:
            print("KNOWN-FINDING: property=%s %s" % (prop, rec.get("signature")))
            print("  expected: %s\n  observed: %s" % (rec.get("expected"), rec.get("observed")))
            return 0
        print("VIOLATION property=%s replay=%s" % (prop, path))
        print("  signature: %s\n  expected: %s\n  observed: %s" % (rec.get("signature"), rec.get("expected"), rec.get("observed")))
        return 1
    print("HARNESS-ERROR %s" % (rec or {}).get("error"))
    return 2
