"""Coverage-guided campaign (atheris / libFuzzer) for one property part, run as a child process of a thorough-tier worker:

    python -m vf.fuzz.target --prop C13 --part fuzz-text --out <dir> --runs N --seed S [--corpus <dir>] [--dict <file>]

Every input is decoded into the same JSON case the Hypothesis parts use and handed to the part's plain check function, so the
semantic oracle sits inside the target.  A part whose `fuzz_decode` is the string "hypothesis" has no decoder of its own: libFuzzer's bytes
are the choice sequence of the part's Hypothesis strategy (`fuzz_one_input`), i.e. the structured generator of the Hypothesis part is driven
by coverage feedback from the instrumented pydsdl instead of by Hypothesis' own random source.  A violation is written to <out>/finding-<signature>.json (first one per signature)
and the campaign goes on; nothing is reported from here - the parent re-runs every finding through the check.
"""
from __future__ import annotations

import argparse
import hashlib
import importlib
import json
import os
import re
import sys


def main() -> int:
    ap = argparse.ArgumentParser()
    ap.add_argument("--prop", required=True)
    ap.add_argument("--part", required=True)
    ap.add_argument("--out", required=True)
    ap.add_argument("--runs", type=int, default=10000)
    ap.add_argument("--seed", type=int, default=1)
    ap.add_argument("--corpus", default="")
    ap.add_argument("--dict", default="")
    ap.add_argument("--repo", required=True)
    ap.add_argument("--max-len", type=int, default=1024)
    ap.add_argument("--case-timeout", type=float, default=60.0)
    ap.add_argument("--sample-every", type=int, default=50)
    a = ap.parse_args()
    import atheris

    with atheris.instrument_imports(include=["pydsdl"]):
        import pydsdl  # noqa: F401
    from vf import core
    from vf.core import Ctx, Violation
    from vf.worker import _to_violation

    mod = importlib.import_module("vf.props.%s" % a.prop.lower())
    scratch = os.path.join(a.out, "scratch")
    os.makedirs(scratch, exist_ok=True)
    ctx = Ctx(prop=a.prop, tier="thorough", seed=a.seed, shard=0, nshards=1, repo=a.repo, scratch_root=scratch)
    part = {p.name: p for p in core.all_parts(mod, ctx)}[a.part]
    decode = part.fuzz_decode
    stats = {"execs": 0, "violations": 0, "nontrivial": 0, "timeouts": 0, "samples": 0}
    seen = set()
    import signal

    class _CaseTimeout(BaseException):
        pass

    def _alarm(_s: int, _f: object) -> None:
        raise _CaseTimeout()

    # libFuzzer's own alarm is switched off below (-timeout=0 -handle_alrm=0): a slow case is abandoned and counted, as in the workers
    signal.signal(signal.SIGALRM, _alarm)

    def one(data: bytes) -> None:
        stats["execs"] += 1
        try:
            case = decode(data)
        except Exception:  # pylint: disable=broad-except
            return
        if case is None:
            return
        run_case(case, data)

    def run_case(case: object, data: bytes) -> None:
        try:
            signal.setitimer(signal.ITIMER_REAL, a.case_timeout)
            try:
                info = part.check(case, ctx)
            finally:
                signal.setitimer(signal.ITIMER_REAL, 0)
            if info is not None and info.nontrivial:
                stats["nontrivial"] += 1
                # a sample of the non-trivial cases goes back to the worker, which re-runs them for the evidence
                if stats["nontrivial"] % a.sample_every == 1 and stats["samples"] < 60:
                    stats["samples"] += 1
                    with open(os.path.join(a.out, "sample-%03d.json" % stats["samples"]), "w") as f:
                        json.dump(case, f)
        except _CaseTimeout:
            stats["timeouts"] += 1
        except BaseException as ex:  # pylint: disable=broad-except
            v = _to_violation(ex)
            if v is None:
                if isinstance(ex, (KeyboardInterrupt, SystemExit)):
                    raise
                v = Violation("harness:" + type(ex).__name__, "no harness error", repr(ex)[:300])
            stats["violations"] += 1
            if v.signature not in seen and len(seen) < 40:
                seen.add(v.signature)
                name = re.sub(r"[^A-Za-z0-9_.-]+", "_", v.signature)[:80] + "-" + hashlib.sha1(data or json.dumps(case, default=str).encode()).hexdigest()[:8]
                with open(os.path.join(a.out, "finding-%s.json" % name), "w") as f:
                    json.dump({"signature": v.signature, "case": case, "expected": core.jsonable(v.expected), "observed": core.jsonable(v.observed)}, f)
        if stats["execs"] % 50 == 0 or stats["execs"] >= a.runs - 1:
            with open(os.path.join(a.out, "stats.json"), "w") as f:
                json.dump(stats, f)

    entry = one
    if decode == "hypothesis":
        from hypothesis import given, settings, HealthCheck
        from hypothesis.internal.conjecture import providers as _providers

        def _draw_integer(self, min_value=None, max_value=None, *, weights=None, shrink_towards=0):  # type: ignore
            """Hypothesis 6.168's BytestringProvider.draw_integer compares the raw bits with [min, max] without adding min, so a range such
            as integers(2, 3) - which the shuffle at the end of every fixed_dictionaries of four or more keys draws - never succeeds and
            every input ends as an overrun.  Same draw sizes, offset applied."""
            if min_value is None and max_value is None:
                min_value, max_value = -(2**127), 2**127 - 1
            elif min_value is None:
                min_value = max_value - 2**64
            elif max_value is None:
                max_value = min_value + 2**64
            if min_value == max_value:
                return min_value
            bits = (max_value - min_value).bit_length()
            value = min_value + self._draw_bits(bits)
            while value > max_value:
                value = min_value + self._draw_bits(bits)
            return value

        _providers.BytestringProvider.draw_integer = _draw_integer  # type: ignore

        @settings(database=None, deadline=None, suppress_health_check=list(HealthCheck))
        @given(part.strategy)
        def drive(case: object) -> None:
            run_case(case, b"")

        fuzz_one_input = drive.hypothesis.fuzz_one_input

        def entry(data: bytes) -> None:  # type: ignore
            stats["execs"] += 1
            try:
                fuzz_one_input(data)
            except _CaseTimeout:  # raised while the strategy was still drawing
                stats["timeouts"] += 1
            if stats["execs"] % 50 == 0 or stats["execs"] >= a.runs - 1:
                with open(os.path.join(a.out, "stats.json"), "w") as f:
                    json.dump(stats, f)

    argv = [sys.argv[0], "-runs=%d" % a.runs, "-seed=%d" % (a.seed or 1), "-max_len=%d" % a.max_len, "-timeout=0", "-handle_alrm=0", "-rss_limit_mb=4096", "-print_final_stats=0", "-verbosity=0"]
    if a.dict:
        argv.append("-dict=" + a.dict)
    work_corpus = os.path.join(a.out, "corpus")
    os.makedirs(work_corpus, exist_ok=True)
    argv.append(work_corpus)
    if a.corpus and os.path.isdir(a.corpus):
        argv.append(a.corpus)
    if decode == "hypothesis":
        # an input shorter than the strategy needs is an overrun (no case at all), and nothing in the strategy code is instrumented, so a
        # campaign started from libFuzzer's tiny initial inputs would never grow: seed it with buffers that are long enough
        import random

        rnd = random.Random(a.seed)
        for i in range(48):
            n = rnd.choice([256, 1024, 4096, a.max_len])
            kind = i % 3
            blob = bytes(rnd.getrandbits(8) if kind == 0 else (rnd.getrandbits(8) & rnd.getrandbits(8) if kind == 1 else rnd.choice([0, 0, 0, 1, 2, 255, rnd.getrandbits(8)])) for _ in range(n))
            with open(os.path.join(work_corpus, "start%02d" % i), "wb") as f:
                f.write(blob)
        argv.insert(1, "-len_control=0")
    atheris.Setup(argv, entry)
    try:
        atheris.Fuzz()
    finally:
        with open(os.path.join(a.out, "stats.json"), "w") as f:
            json.dump(stats, f)
    return 0


if __name__ == "__main__":
    sys.exit(main())
