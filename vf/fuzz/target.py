"""Coverage-guided campaign (atheris / libFuzzer) for one property part, run as a child process of a thorough-tier worker:

    python -m vf.fuzz.target --prop C13 --part fuzz-text --out <dir> --runs N --seed S [--corpus <dir>] [--dict <file>]

Every input is decoded into the same JSON case the Hypothesis parts use and handed to the part's plain check function, so the
semantic oracle sits inside the target.  A violation is written to <out>/finding-<signature>.json (first one per signature)
and the campaign goes on; nothing is reported from here - the parent re-runs every finding through the check.
"""
from __future__ import annotations

import argparse
import hashlib
import importlib
import json
import os
import re
import sys


def main() -> int:
    ap = argparse.ArgumentParser()
    ap.add_argument("--prop", required=True)
    ap.add_argument("--part", required=True)
    ap.add_argument("--out", required=True)
    ap.add_argument("--runs", type=int, default=10000)
    ap.add_argument("--seed", type=int, default=1)
    ap.add_argument("--corpus", default="")
    ap.add_argument("--dict", default="")
    ap.add_argument("--repo", required=True)
    ap.add_argument("--max-len", type=int, default=1024)
    a = ap.parse_args()
    import atheris

    with atheris.instrument_imports(include=["pydsdl"]):
        import pydsdl  # noqa: F401
    from vf import core
    from vf.core import Ctx, Violation
    from vf.worker import _to_violation

    mod = importlib.import_module("vf.props.%s" % a.prop.lower())
    scratch = os.path.join(a.out, "scratch")
    os.makedirs(scratch, exist_ok=True)
    ctx = Ctx(prop=a.prop, tier="thorough", seed=a.seed, shard=0, nshards=1, repo=a.repo, scratch_root=scratch)
    part = {p.name: p for p in mod.parts(ctx)}[a.part]
    decode = part.fuzz_decode
    stats = {"execs": 0, "violations": 0, "nontrivial": 0}
    seen = set()

    def one(data: bytes) -> None:
        stats["execs"] += 1
        try:
            case = decode(data)
        except Exception:  # pylint: disable=broad-except
            return
        if case is None:
            return
        try:
            info = part.check(case, ctx)
            if info is not None and info.nontrivial:
                stats["nontrivial"] += 1
        except BaseException as ex:  # pylint: disable=broad-except
            v = _to_violation(ex)
            if v is None:
                if isinstance(ex, (KeyboardInterrupt, SystemExit)):
                    raise
                v = Violation("harness:" + type(ex).__name__, "no harness error", repr(ex)[:300])
            stats["violations"] += 1
            if v.signature not in seen and len(seen) < 40:
                seen.add(v.signature)
                name = re.sub(r"[^A-Za-z0-9_.-]+", "_", v.signature)[:80] + "-" + hashlib.sha1(data).hexdigest()[:8]
                with open(os.path.join(a.out, "finding-%s.json" % name), "w") as f:
                    json.dump({"signature": v.signature, "case": case, "expected": core.jsonable(v.expected), "observed": core.jsonable(v.observed)}, f)
        if stats["execs"] % 500 == 0:
            with open(os.path.join(a.out, "stats.json"), "w") as f:
                json.dump(stats, f)

    argv = [sys.argv[0], "-runs=%d" % a.runs, "-seed=%d" % (a.seed or 1), "-max_len=%d" % a.max_len, "-timeout=120", "-rss_limit_mb=4096", "-print_final_stats=0", "-verbosity=0"]
    if a.dict:
        argv.append("-dict=" + a.dict)
    work_corpus = os.path.join(a.out, "corpus")
    os.makedirs(work_corpus, exist_ok=True)
    argv.append(work_corpus)
    if a.corpus and os.path.isdir(a.corpus):
        argv.append(a.corpus)
    atheris.Setup(argv, one)
    try:
        atheris.Fuzz()
    finally:
        with open(os.path.join(a.out, "stats.json"), "w") as f:
            json.dump(stats, f)
    return 0


if __name__ == "__main__":
    sys.exit(main())
