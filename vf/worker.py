"""One shard of one check, in its own fresh interpreter:  python -m vf.worker --prop C01 --tier quick ...

Writes a JSON result file; never prints VIOLATION itself (the parent merges shards and decides).
"""
from __future__ import annotations

import argparse
import hashlib
import importlib
import json
import os
import struct
import sys
import time
import traceback
import typing

from . import core
from .core import Violation, HarnessError, Info, Part, Ctx

MAX_SIGNATURES_PER_PART = 3
CASE_TIMEOUT = {"quick": 30, "thorough": 120, "replay": 600}  # seconds; a hit is *inconclusive*, never a violation
MAX_TIMEOUTS_PER_PART = 3


class CaseTimeout(BaseException):
    """Raised by the watchdog inside a case; deliberately not an Exception so that nothing under test swallows it."""


class PartAborted(BaseException):
    pass


def _alarm(_signum: int, _frame: typing.Any) -> None:
    raise CaseTimeout()  # distinct root causes enumerated per part and shard before giving up


def shard_seed(seed: int, prop: str, shard: int, salt: str = "") -> int:
    h = hashlib.sha256(("%d:%s:%d:%s" % (seed, prop, shard, salt)).encode()).digest()
    return int.from_bytes(h[:8], "big")


class Stats:
    def __init__(self) -> None:
        self.evaluations = 0
        self.nontrivial: typing.Set[bytes] = set()
        self.classes: typing.Dict[str, int] = {}
        self.samples: typing.List[typing.Tuple[str, typing.Any]] = []  # (fingerprint, rendering), lowest fingerprints kept
        self.known: typing.Dict[str, int] = {}
        self.known_examples: typing.Dict[str, typing.Any] = {}
        self.violations: typing.List[dict] = []
        self.parts: typing.Dict[str, dict] = {}

    def record(self, part: str, case: typing.Any, info: typing.Optional[Info]) -> None:
        self.evaluations += 1
        p = self.parts.setdefault(part, {"evaluations": 0, "nontrivial": 0})
        p["evaluations"] += 1
        if info is None:
            return
        for c in info.classes:
            self.classes[c] = self.classes.get(c, 0) + 1
        if info.nontrivial:
            fp = core.fingerprint({"part": part, "case": case})
            key = bytes.fromhex(fp[:16])
            if key not in self.nontrivial:
                self.nontrivial.add(key)
                p["nontrivial"] += 1
                if len(self.samples) < 3 or fp < self.samples[-1][0]:
                    self.samples.append((fp, {"part": part, "case": info.sample if info.sample is not None else case}))
                    self.samples.sort(key=lambda t: t[0])
                    del self.samples[3:]


def _is_known(known: typing.Dict[str, dict], signature: str) -> bool:
    return signature in known


def _to_violation(ex: BaseException) -> typing.Optional[Violation]:
    """An unexpected exception that passed through pydsdl code is a finding about pydsdl, not about the harness."""
    if isinstance(ex, Violation):
        return ex
    if isinstance(ex, (HarnessError, KeyboardInterrupt, SystemExit)):
        return None
    frames = core.pydsdl_frames(ex)
    if frames:
        v = Violation(core.crash_signature(ex), "no exception", "%s: %s" % (type(ex).__name__, str(ex)[:300]))
        v.__cause__ = ex
        return v
    return None


def run_part(part: Part, ctx: Ctx, stats: Stats, examples: int, known: typing.Dict[str, dict], shrink_cap: int) -> None:
    import hypothesis
    from hypothesis import given, settings, HealthCheck, Phase, seed as hseed
    from hypothesis.internal.conjecture import engine as _engine

    _engine.MAX_SHRINKING_SECONDS = shrink_cap

    import signal

    signal.signal(signal.SIGALRM, _alarm)
    excluded: typing.Set[str] = set()
    t_part = time.time()
    # once a violation has been found, enumerating further root causes must not eat the whole wall budget (a defect that makes
    # every case slow would otherwise keep the shard busy until it is killed and its findings are lost)
    after_finding_limit = 120.0 if ctx.tier == "quick" else 900.0

    def guard(case: typing.Any, thunk: typing.Callable[[], typing.Any]) -> typing.Tuple[bool, typing.Any]:
        """Runs thunk; returns (True, result), or (False, None) when it failed in a known / already reported way."""
        import signal

        try:
            signal.setitimer(signal.ITIMER_REAL, CASE_TIMEOUT.get(ctx.tier, 60))
            try:
                return True, thunk()
            finally:
                signal.setitimer(signal.ITIMER_REAL, 0)
        except CaseTimeout:
            d = stats.parts.setdefault(part.name, {"evaluations": 0, "nontrivial": 0})
            d["timeouts"] = d.get("timeouts", 0) + 1
            if d["timeouts"] >= MAX_TIMEOUTS_PER_PART:
                raise PartAborted()
            return False, None
        except BaseException as ex:  # pylint: disable=broad-except
            v = _to_violation(ex)
            if v is None:
                raise
            if v.signature in known or v.signature in excluded:
                if v.signature in known:
                    stats.known[v.signature] = stats.known.get(v.signature, 0) + 1
                    stats.known_examples.setdefault(v.signature, case)
                else:
                    bucket = stats.parts.setdefault(part.name, {"evaluations": 0, "nontrivial": 0}).setdefault(
                        "excluded_after_report", {}
                    )
                    bucket[v.signature] = bucket.get(v.signature, 0) + 1
                    if time.time() - t_part > after_finding_limit:
                        raise PartAborted()
                return False, None
            current["case"] = case
            current["violation"] = v
            raise v

    def run_case(case: typing.Any) -> None:
        t_case = time.time()
        ok, info = guard(case, lambda: part.check(case, ctx))
        dt = time.time() - t_case
        d = stats.parts.setdefault(part.name, {"evaluations": 0, "nontrivial": 0})
        if dt > d.get("slowest_s", 0.0):
            d["slowest_s"] = round(dt, 3)
            if dt > 2.0:
                d["slowest_case"] = json.dumps(case, default=str)[:1500]
        stats.record(part.name, case, info if ok else None)

    _guard_fn = guard

    class Hooks:
        """Handed to state machines: `guard` wraps every step, `done` records the finished history."""

        guard = staticmethod(_guard_fn)

        @staticmethod
        def done(history: typing.Any, info: typing.Optional[Info]) -> None:
            stats.record(part.name, history, info)

    current: typing.Dict[str, typing.Any] = {}

    common = dict(
        database=None,
        deadline=None,
        derandomize=False,
        report_multiple_bugs=False,
        phases=(Phase.generate, Phase.shrink),
        suppress_health_check=[HealthCheck.too_slow, HealthCheck.data_too_large, HealthCheck.large_base_example],
        verbosity=hypothesis.Verbosity.quiet,
    )

    # -------- coverage-guided campaign in a child process (atheris); every finding is re-run through the plain check
    if part.fuzz_decode is not None:
        run_fuzz(part, ctx, stats, guard, examples)
        return

    # -------- exhaustive grid (sharded by index), no library involved
    if part.grid is not None:
        for i, case in enumerate(part.grid(ctx)):
            if i % ctx.nshards != ctx.shard:
                continue
            try:
                run_case(case)
            except Violation as v:
                if v.signature not in excluded:
                    excluded.add(v.signature)
                    stats.violations.append(_violation_record(part, ctx, case, v, salt="grid"))
        if part.strategy is None and part.machine is None:
            return

    import signal

    signal.signal(signal.SIGALRM, _alarm)
    for attempt in range(MAX_SIGNATURES_PER_PART):
        if attempt > 0 and time.time() - t_part > after_finding_limit:
            return
        salt = "%s:%d" % (part.name, attempt)
        s = shard_seed(ctx.seed, ctx.prop, ctx.shard, salt)
        current.clear()
        try:
            if part.machine is not None:
                from hypothesis.stateful import run_state_machine_as_test

                machine_cls = part.machine(ctx, Hooks)
                st = settings(max_examples=examples, stateful_step_count=part.steps, **common)
                run_state_machine_as_test(hseed(s)(machine_cls), settings=st)
            else:

                @hseed(s)
                @settings(max_examples=examples, **common)
                @given(part.strategy)
                def test(case: typing.Any) -> None:
                    run_case(case)

                test()
            return
        except PartAborted:
            if not excluded:
                stats.parts.setdefault(part.name, {"evaluations": 0, "nontrivial": 0})["aborted_inconclusive"] = True
            return
        except Violation as v:
            case = current.get("case")
            vv = current.get("violation") or v
            stats.violations.append(_violation_record(part, ctx, case, vv, salt=salt))
            excluded.add(vv.signature)
        except hypothesis.errors.Flaky as ex:
            # The same case both passed and failed: report with what we have; flakiness inside pydsdl is itself a defect,
            # flakiness inside the harness must be fixed - so this is surfaced as a harness error unless a case is known.
            if current.get("violation") is not None:
                vv = current["violation"]
                stats.violations.append(_violation_record(part, ctx, current.get("case"), vv, salt=salt, flaky=True))
                excluded.add(vv.signature)
            else:
                raise HarnessError("flaky: %r" % ex) from ex


def run_fuzz(part: Part, ctx: Ctx, stats: "Stats", guard: typing.Any, examples: int) -> None:
    import subprocess
    import tempfile

    p = stats.parts.setdefault(part.name, {"evaluations": 0, "nontrivial": 0})
    try:
        import atheris  # noqa: F401
    except ImportError:
        p["fuzz"] = "atheris not importable: campaign skipped"
        return
    out = tempfile.mkdtemp(prefix="fuzz-", dir=ctx.scratch_root)
    corpus = ""
    if part.fuzz_corpus is not None and ctx.shard % 2 == 0:  # odd shards start from an empty corpus
        corpus = os.path.join(out, "seed-corpus")
        os.makedirs(corpus)
        for i, blob in enumerate(part.fuzz_corpus(ctx)):
            with open(os.path.join(corpus, "seed%03d" % i), "wb") as f:
                f.write(blob)
    dict_path = ""
    if part.fuzz_dict:
        dict_path = os.path.join(out, "dict.txt")
        with open(dict_path, "w") as f:
            for tok in part.fuzz_dict:
                f.write('"%s"\n' % "".join(ch if 32 <= ord(ch) < 127 and ch not in '"\\' else "\\x%02x" % ord(ch) for ch in tok if ord(ch) < 256))
    runs = max(1000, examples)
    if part.fuzz_decode == "hypothesis":  # instrumented runs of a structured check are an order of magnitude slower than plain ones
        runs = examples
    cmd = [sys.executable, "-m", "vf.fuzz.target", "--prop", ctx.prop, "--part", part.name, "--out", out, "--runs", str(runs),
           "--seed", str(shard_seed(ctx.seed, ctx.prop, ctx.shard, part.name) % (2**31 - 1) + 1), "--repo", ctx.repo]
    if part.fuzz_decode == "hypothesis":  # the bytes are the choice sequence of the part's strategy
        cmd += ["--max-len", "16384", "--case-timeout", str(CASE_TIMEOUT.get(ctx.tier, 60))]
    if corpus:
        cmd += ["--corpus", corpus]
    if dict_path:
        cmd += ["--dict", dict_path]
    def lift_memory_limit() -> None:
        import resource

        _s, h = resource.getrlimit(resource.RLIMIT_AS)
        resource.setrlimit(resource.RLIMIT_AS, (h, h))

    try:
        subprocess.run(cmd, stdout=subprocess.DEVNULL, stderr=subprocess.DEVNULL, timeout=3 * 3600, preexec_fn=lift_memory_limit)
    except subprocess.TimeoutExpired:
        p["fuzz"] = "campaign hit the wall cap (inconclusive)"
    st = {}
    try:
        st = json.load(open(os.path.join(out, "stats.json")))
    except (OSError, ValueError):
        pass
    p["evaluations"] += int(st.get("execs", 0))
    stats.evaluations += int(st.get("execs", 0))
    p["fuzz_execs"] = int(st.get("execs", 0))
    p["fuzz_corpus"] = "generated-buffers" if part.fuzz_decode == "hypothesis" else ("seeded" if corpus else "empty")
    p["fuzz_raw_findings"] = int(st.get("violations", 0))
    if st.get("timeouts"):
        p["timeouts"] = p.get("timeouts", 0) + int(st["timeouts"])
    if part.fuzz_decode == "hypothesis":
        p["fuzz_nontrivial"] = int(st.get("nontrivial", 0))
    # re-run the findings (and a sample of the evolved corpus, for the evidence) through the plain check
    for fn in sorted(os.listdir(out)):
        if fn.startswith("finding-") or fn.startswith("sample-"):
            rec = json.load(open(os.path.join(out, fn)))
            case = rec["case"] if fn.startswith("finding-") else rec
            try:
                ok, info = guard(case, lambda: part.check(case, ctx))
                stats.record(part.name, case, info if ok else None)
            except Violation as v:
                stats.violations.append(_violation_record(part, ctx, case, v, salt="fuzz"))
    cdir = os.path.join(out, "corpus")
    if os.path.isdir(cdir) and callable(part.fuzz_decode):
        for fn in sorted(os.listdir(cdir))[:200]:
            try:
                case = part.fuzz_decode(open(os.path.join(cdir, fn), "rb").read())
                if case is None:
                    continue
                ok, info = guard(case, lambda: part.check(case, ctx))
                stats.record(part.name, case, info if ok else None)
            except Violation as v:
                stats.violations.append(_violation_record(part, ctx, case, v, salt="fuzz-corpus"))
            except Exception:  # pylint: disable=broad-except
                continue
    import shutil

    shutil.rmtree(out, ignore_errors=True)


def _violation_record(part: Part, ctx: Ctx, case: typing.Any, v: Violation, salt: str, flaky: bool = False) -> dict:
    return {
        "part": part.name,
        "signature": v.signature,
        "case": case,
        "expected": core.jsonable(v.expected),
        "observed": core.jsonable(v.observed),
        "detail": v.detail,
        "shard": ctx.shard,
        "salt": salt,
        "flaky": flaky,
    }


def main(argv: typing.Optional[typing.List[str]] = None) -> int:
    ap = argparse.ArgumentParser()
    ap.add_argument("--prop", required=True)
    ap.add_argument("--tier", required=True)
    ap.add_argument("--shard", type=int, required=True)
    ap.add_argument("--nshards", type=int, required=True)
    ap.add_argument("--seed", type=int, required=True)
    ap.add_argument("--repo", required=True)
    ap.add_argument("--out", required=True)
    ap.add_argument("--scale", type=float, default=1.0)
    ap.add_argument("--known", default="")
    ap.add_argument("--only-part", default="")
    ap.add_argument("--scratch", default="")
    a = ap.parse_args(argv)

    t0 = time.time()
    try:  # a runaway allocation in the code under test becomes a MemoryError inside the case instead of an OOM kill of the shard
        import resource

        _soft, _hard = resource.getrlimit(resource.RLIMIT_AS)
        resource.setrlimit(resource.RLIMIT_AS, (4 * 2**30, _hard))  # soft limit only: child processes may lift it again
    except (ImportError, ValueError, OSError):
        pass
    result: typing.Dict[str, typing.Any] = {"shard": a.shard, "status": "error"}
    if a.scratch:
        scratch = os.path.join(a.scratch, "s%d" % a.shard)
        os.makedirs(scratch, exist_ok=True)
    else:
        scratch = core.make_scratch_root("%s-%d" % (a.prop, a.shard))
    try:
        import pydsdl

        here = os.path.realpath(os.path.dirname(pydsdl.__file__))
        if not here.startswith(os.path.realpath(a.repo) + os.sep):
            raise HarnessError("pydsdl imported from %s, not from %s" % (here, a.repo))
        known = json.loads(a.known) if a.known else {}
        mod = importlib.import_module("vf.props.%s" % a.prop.lower())
        ctx = Ctx(prop=a.prop, tier=a.tier, seed=a.seed, shard=a.shard, nshards=a.nshards, repo=a.repo, scratch_root=scratch)
        stats = Stats()
        budget = mod.BUDGET[a.tier]
        parts = core.all_parts(mod, ctx)
        total_w = sum(p.weight for p in parts) or 1.0
        for p in parts:
            if a.only_part and p.name != a.only_part:
                continue
            n = max(p.min_examples, int(budget * a.scale * p.weight / total_w / max(p.cost, 1e-9)))
            if p.fuzz_decode == "hypothesis":
                n = max(300, int(p.fuzz_runs * a.scale))
            t1 = time.time()
            run_part(p, ctx, stats, n, known, shrink_cap=20 if a.tier == "quick" else 240)
            stats.parts.setdefault(p.name, {"evaluations": 0, "nontrivial": 0})["wall_s"] = round(time.time() - t1, 2)
            stats.parts[p.name]["budget"] = n
        result.update(
            status="ok",
            evaluations=stats.evaluations,
            classes=stats.classes,
            samples=[s for _, s in stats.samples],
            known=stats.known,
            known_examples=stats.known_examples,
            violations=stats.violations,
            parts=stats.parts,
            extra=ctx.extra,
        )
        with open(a.out + ".fp", "wb") as f:
            for k in sorted(stats.nontrivial):
                f.write(k)
    except BaseException as ex:  # pylint: disable=broad-except
        result.update(status="error", error="%s: %s" % (type(ex).__name__, ex), traceback=traceback.format_exc()[-6000:])
    finally:
        import shutil

        shutil.rmtree(scratch, ignore_errors=True)
    result["wall_s"] = round(time.time() - t0, 2)
    with open(a.out, "w") as f:
        json.dump(result, f, default=str)
    return 0


if __name__ == "__main__":
    sys.exit(main())
