"""Generator of definition models for C05: a valid skeleton plus 0..3 edits, each aimed at one static rule and its boundary."""
from __future__ import annotations

import copy
import typing

from hypothesis import strategies as st

from ..ref import layout, rules

# name -> (deprecated, layout spec, DSDL text)
DEPS: typing.Dict[str, typing.Tuple[bool, typing.Any, str]] = {
    "Dep": (False, ["struct", [["a", ["uint", 8, "sat"]]]], "uint8 a\n@sealed\n"),
    "DepD": (True, ["struct", [["a", ["uint", 16, "sat"]]]], "@deprecated\nuint16 a\n@sealed\n"),
    "DepV": (False, ["delim", ["struct", [["a", ["var", ["uint", 8, "sat"], 3]]]], 2], "uint8[<=3] a\n@extent 48\n"),
    "DepU": (False, ["union", [["a", ["uint", 8, "sat"]], ["b", ["float", 16, "sat"]]]], "@union\nuint8 a\nfloat16 b\n@sealed\n"),
}
DEP_TABLE = {k: (v[0], v[1]) for k, v in DEPS.items()}

GOOD_NAMES = ["a", "b", "c", "value", "x1", "_a", "a_", "_", "com", "com10", "lpt", "voidx", "intx", "q1_", "uq", "float_", "con1", "types", "Self1", "nullable", "sat", "uintx8", "q_1_2", "auxiliary"]
BAD_NAMES = [
    "truncated", "SATURATED", "true", "False", "bool", "Bool", "void", "void8", "VOID16", "int", "int8", "uint", "UINT64", "Uint7", "q1_2", "uq16_16", "Q3_4",
    "float", "float16", "FLOAT99", "optional", "aligned", "const", "Const", "struct", "super", "template", "enum", "self", "SELF", "and", "or", "not", "auto", "type", "Type",
    "con", "prn", "aux", "nul", "NUL", "com1", "COM9", "lpt0", "Lpt5", "_a_", "__", "_x_y_", "___",
    # not names at all: characters outside [A-Za-z0-9_] - also ones that case mapping or stripping would turn into ASCII
    "\u212aelvin", "\u212a", "\uff26\uff4f\uff4f", "na\u00efve", "x\u00b2", "a\u00a0b", "\u0130d", "\ufb01x", "a-b", "a b", "9a", "\u0661x",
]
# for the names that come from the file system (short type name, namespace components) only: in a definition's text blanks around a
# name are formatting, on disk they are part of the name
FILE_BAD_NAMES = ["Foo ", " Foo", "Foo\t", "Foo\n", "\nFoo", "sub ", " "]
SHORT_GOOD = ["Foo", "Bar_1", "A", "baz", "Heartbeat", "Com", "Types", "_X"]
NS_GOOD = ["node", "sub_1", "x", "Lpt", "deep"]


def scalar_types() -> st.SearchStrategy:
    return st.one_of(
        st.tuples(st.sampled_from([1, 2, 7, 8, 63, 64, 65, 100]), st.sampled_from([None, None, "saturated", "truncated"])).map(
            lambda t: {"base": "uint", "width": t[0], "cast": t[1]}
        ),
        st.tuples(st.sampled_from([1, 2, 3, 8, 64, 65]), st.sampled_from([None, None, "saturated", "truncated"])).map(
            lambda t: {"base": "int", "width": t[0], "cast": t[1]}
        ),
        st.tuples(st.sampled_from([8, 16, 17, 32, 64, 128]), st.sampled_from([None, "saturated", "truncated"])).map(
            lambda t: {"base": "float", "width": t[0], "cast": t[1]}
        ),
        st.sampled_from([None, None, None, "saturated", "truncated"]).map(lambda c: {"base": "bool", "cast": c}),
        st.sampled_from([None, None, None, "saturated"]).map(lambda c: {"base": "byte", "cast": c}),
        st.just({"base": "utf8", "cast": None}),
        st.tuples(st.sampled_from([1, 8, 64, 65]), st.sampled_from([None, None, None, "truncated"])).map(lambda t: {"base": "void", "width": t[0], "cast": t[1]}),
        st.tuples(st.sampled_from(["Dep", "Dep", "DepD", "DepV", "DepU", "Nope"]), st.sampled_from([None, None, None, "saturated"])).map(
            lambda t: {"base": "dep", "dep": t[0], "cast": t[1]}
        ),
    )


def arrays() -> st.SearchStrategy:
    return st.one_of(
        st.none(),
        st.none(),
        st.tuples(st.sampled_from(["fixed", "le", "lt"]), st.sampled_from([0, 1, 1, 2, 2, 3, 255, 256, -1])).map(list),
    )


def any_type() -> st.SearchStrategy:
    return st.tuples(scalar_types(), arrays()).map(lambda t: dict(t[0], array=t[1]))


def valid_types() -> st.SearchStrategy:
    return st.one_of(
        st.sampled_from([1, 2, 8, 13, 64]).map(lambda w: {"base": "uint", "width": w, "cast": None, "array": None}),
        st.sampled_from([2, 8, 64]).map(lambda w: {"base": "int", "width": w, "cast": None, "array": None}),
        st.sampled_from([16, 32, 64]).map(lambda w: {"base": "float", "width": w, "cast": "truncated", "array": None}),
        st.just({"base": "bool", "cast": None, "array": None}),
        st.just({"base": "utf8", "cast": None, "array": ["le", 5]}),
        st.just({"base": "byte", "cast": None, "array": ["fixed", 3]}),
        st.just({"base": "uint", "width": 7, "cast": "truncated", "array": ["lt", 4]}),
        st.sampled_from(["Dep", "DepV", "DepU"]).map(lambda d: {"base": "dep", "dep": d, "cast": None, "array": None}),
        st.just({"base": "dep", "dep": "Dep", "cast": None, "array": ["le", 2]}),
    )


def values() -> st.SearchStrategy:
    return st.one_of(
        st.sampled_from([["int", 0], ["int", 1], ["int", -1], ["int", 127], ["int", 128], ["int", 255], ["int", 256], ["int", -128], ["int", -129], ["int", 2**63], ["int", 65504], ["int", 65505]]),
        st.sampled_from([["frac", 1, 2], ["frac", -3, 2], ["frac", 16, 2]]),
        st.sampled_from([["bool", True], ["bool", False], ["str", "a"], ["str", "ab"], ["str", ""]]),
    )


def _section(prefix: str) -> st.SearchStrategy:
    def build(args: typing.Any) -> typing.List[typing.Any]:
        union, types, const, mode, extras = args
        out: typing.List[typing.Any] = []
        if union:
            out.append({"s": "dir", "name": "union", "expr": None})
            while len(types) < 2:
                types = list(types) + [{"base": "uint", "width": 8 + len(types), "cast": None, "array": None}]
        for i, t in enumerate(types):
            out.append({"s": "field", "type": t, "name": "%s%d" % (prefix, i)})
            if not union and i in extras:
                out.append({"s": "field", "type": {"base": "void", "width": 3 + i, "cast": None, "array": None}, "name": ""})
        if const is not None:
            out.append({"s": "const", "type": {"base": "uint", "width": 8, "cast": None, "array": None}, "name": prefix.upper() + "C", "value": const})
        if mode == "sealed":
            out.insert(len(out) if 0 in extras else (1 if union else 0), {"s": "dir", "name": "sealed", "expr": None})
        else:
            out.append({"s": "dir", "name": "extent", "expr": ["rel", 8 * mode]})
        return out

    return st.tuples(
        st.booleans(),
        st.lists(valid_types(), max_size=4),
        st.one_of(st.none(), st.sampled_from([["int", 0], ["int", 255], ["str", "z"]])),
        st.one_of(st.just("sealed"), st.integers(0, 3)),
        st.sets(st.integers(0, 3), max_size=2),
    ).map(build)


def skeletons() -> st.SearchStrategy:
    def build(args: typing.Any) -> typing.Any:
        root, ns, short, version, service, deprecated, s1, s2 = args
        st_: typing.List[typing.Any] = []
        if deprecated:
            st_.append({"s": "dir", "name": "deprecated", "expr": None})
        st_ += s1
        if service:
            st_.append({"s": "marker"})
            st_ += s2
        return {"root": root, "ns": ns, "short": short, "version": version, "port": None, "allow_unregulated": False, "statements": st_}

    return st.tuples(
        st.sampled_from(["uavcan", "vendor", "cyphal", "zubax", "Uavcan", "CYPHAL"]),
        st.lists(st.sampled_from(NS_GOOD), max_size=2, unique=True),
        st.sampled_from(SHORT_GOOD),
        st.sampled_from([[1, 0], [0, 1], [1, 1], [255, 255], [2, 7]]),
        st.booleans(),
        st.booleans(),
        _section("f"),
        _section("g"),
    ).map(build)


def edits() -> st.SearchStrategy:
    names = st.one_of(st.sampled_from(GOOD_NAMES), st.sampled_from(BAD_NAMES), st.sampled_from(BAD_NAMES))
    directive = st.one_of(
        st.sampled_from(["union", "deprecated", "sealed", "print", "foo", "Union", "assert", "extent"]).map(lambda n: {"s": "dir", "name": n, "expr": None}),
        st.sampled_from([["bool", True], ["bool", False], ["int", 1], ["str", "x"]]).map(lambda e: {"s": "dir", "name": "assert", "expr": e}),
        st.sampled_from([["rel", -8], ["rel", 0], ["rel", 8], ["rel", 4], ["rel", 1], ["int", -8], ["frac", 17, 2], ["frac", 16, 2], ["bool", True], ["int", 8000]]).map(
            lambda e: {"s": "dir", "name": "extent", "expr": e}
        ),
        st.sampled_from([["int", 1], ["bool", True], ["bool", False], ["int", 0], ["str", ""], ["str", "x"], ["frac", 0, 1], ["frac", 1, 3]]).flatmap(lambda e: st.sampled_from(["union", "sealed", "deprecated", "print"]).map(lambda n: {"s": "dir", "name": n, "expr": e})),
    )
    new_stmt = st.one_of(
        directive,
        directive,
        st.just({"s": "marker"}),
        st.tuples(any_type(), names).map(lambda t: {"s": "field", "type": t[0], "name": t[1]}),
        st.tuples(any_type(), names, values()).map(lambda t: {"s": "const", "type": t[0], "name": t[1], "value": t[2]}),
        st.sampled_from([1, 8, 64, 65]).map(lambda w: {"s": "field", "type": {"base": "void", "width": w, "cast": None, "array": None}, "name": ""}),
    )
    return st.one_of(
        st.tuples(st.just("insert"), st.integers(0, 40), new_stmt),
        st.tuples(st.just("insert"), st.integers(0, 40), new_stmt),
        st.tuples(st.just("delete"), st.integers(0, 40)),
        st.tuples(st.just("move"), st.integers(0, 40), st.one_of(st.integers(0, 40), st.just(-1))),  # a statement to another place (-1: the end)
        st.tuples(st.just("retype"), st.integers(0, 40), any_type()),
        st.tuples(st.just("retype"), st.integers(0, 40), any_type()),
        st.tuples(st.just("rename"), st.integers(0, 40), names),
        st.tuples(st.just("rename"), st.integers(0, 40), names),
        st.tuples(st.just("dupname"), st.integers(0, 40), st.integers(0, 40)),
        st.tuples(st.just("value"), st.integers(0, 40), values()),
        st.tuples(st.just("extent"), st.sampled_from([["rel", -8], ["rel", 0], ["rel", 8], ["rel", 4], ["rel", -4], ["int", -8], ["frac", 17, 2]])),
        st.tuples(st.just("version"), st.sampled_from([[0, 0], [0, 1], [1, 0], [255, 255], [256, 0], [0, 256], [255, 0], [1, 256], [300, 300]])),
        st.tuples(
            st.just("port"),
            st.sampled_from([0, 1, 255, 256, 383, 384, 511, 512, 6143, 6144, 7167, 7168, 8191, 8192, 9000, 100, 6500, 7500, 300, 400]),
            st.booleans(),
        ),
        st.tuples(st.just("root"), st.sampled_from(["uavcan", "cyphal", "vendor", "regulated", "UAVCAN", "Cyphal", "uavcaN"])),
        st.tuples(st.just("short"), st.one_of(st.sampled_from(SHORT_GOOD), st.sampled_from(BAD_NAMES), st.sampled_from(FILE_BAD_NAMES))),
        st.tuples(st.just("nscomp"), st.one_of(st.sampled_from(NS_GOOD), st.sampled_from(BAD_NAMES), st.sampled_from(FILE_BAD_NAMES))),
        st.tuples(st.just("allow"), st.booleans()),
        st.tuples(
            st.just("depref"),
            st.integers(0, 40),
            st.sampled_from(["DepD", "DepD", "Dep", "DepV", "Nope", "depd"]),
            st.sampled_from([None, None, ["le", 2], ["fixed", 1], ["lt", 2]]),
        ),
        st.tuples(st.just("toggle_deprecated")),
    ).map(list)


def apply_edit(model: typing.Any, e: typing.Any) -> typing.Any:
    m = copy.deepcopy(model)
    s = m["statements"]
    kind = e[0]
    attrs = [i for i, x in enumerate(s) if x["s"] in ("field", "const")]
    named = [i for i in attrs if s[i]["name"]]
    if kind == "insert":
        s.insert(e[1] % (len(s) + 1), copy.deepcopy(e[2]))
    elif kind == "delete" and s:
        del s[e[1] % len(s)]
    elif kind == "move" and s:
        x = s.pop(e[1] % len(s))
        s.insert(len(s) if e[2] < 0 else e[2] % (len(s) + 1), x)
    elif kind == "retype" and attrs:
        i = attrs[e[1] % len(attrs)]
        s[i]["type"] = copy.deepcopy(e[2])
        if e[2]["base"] == "void" and s[i]["s"] == "field" and e[1] % 2:
            s[i]["name"] = ""
    elif kind == "rename" and named:
        s[named[e[1] % len(named)]]["name"] = e[2]
    elif kind == "dupname" and len(named) >= 2:
        a, b = named[e[1] % len(named)], named[e[2] % len(named)]
        s[a]["name"] = s[b]["name"]
    elif kind == "value":
        consts = [i for i in attrs if s[i]["s"] == "const"]
        if consts:
            s[consts[e[1] % len(consts)]]["value"] = e[2]
    elif kind == "extent":
        ext = [i for i, x in enumerate(s) if x["s"] == "dir" and x["name"] == "extent"]
        if ext:
            s[ext[0]]["expr"] = e[1]
    elif kind == "version":
        m["version"] = e[1]
    elif kind == "port":
        m["port"] = e[1]
        m["allow_unregulated"] = e[2]
    elif kind == "root":
        m["root"] = e[1]
    elif kind == "short":
        m["short"] = e[1]
    elif kind == "nscomp":
        if m["ns"]:
            m["ns"][0] = e[1]
        else:
            m["ns"] = [e[1]]
    elif kind == "allow":
        m["allow_unregulated"] = e[1]
    elif kind == "depref":
        fields = [i for i in attrs if s[i]["s"] == "field" and s[i]["name"]]
        if fields:
            s[fields[e[1] % len(fields)]]["type"] = {"base": "dep", "dep": e[2], "cast": None, "array": e[3]}
        else:
            s.insert(0, {"s": "field", "type": {"base": "dep", "dep": e[2], "cast": None, "array": e[3]}, "name": "dep_field"})
    elif kind == "toggle_deprecated":
        if s and s[0]["s"] == "dir" and s[0]["name"] == "deprecated":
            del s[0]
        else:
            s.insert(0, {"s": "dir", "name": "deprecated", "expr": None})
    return m


def resolve_extents(model: typing.Any) -> typing.Any:
    """Replace ["rel", d] extent operands by max-length-of-the-section's-fields-so-far + d (an integer literal)."""
    m = copy.deepcopy(model)
    fields: typing.List[typing.Any] = []
    union = False
    for s in m["statements"]:
        if s["s"] == "marker":
            fields, union = [], False
        elif s["s"] == "dir" and s["name"] == "union":
            union = True
        elif s["s"] == "field":
            try:
                fields.append([s["name"], rules.full_spec(s["type"], DEP_TABLE)])
            except rules.Invalid:
                pass
        elif s["s"] == "dir" and s["name"] == "extent" and s["expr"] is not None and s["expr"][0] == "rel":
            try:
                body = ["union" if union and len(fields) >= 2 else "struct", [f for f in fields if not (union and f[1][0] == "void")]]
                mx = layout.inner_max(layout.freeze(body))
            except Exception:  # pylint: disable=broad-except
                mx = 64
            s["expr"] = ["int", mx + s["expr"][1]]
    return m
