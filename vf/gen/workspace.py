"""G-WS / R-NS: workspaces of definition files on disk, with the reference model of identity, listing, ordering,
reference resolution and dependency closure.

Workspace (plain data):
  {"roots": [{"parent": "p0", "name": "ns"} ...],            root directory = <scratch>/<parent>/<name>
   "defs":  [{"root": i, "ns": ["sub"], "short": "A", "version": [1, 0], "port": null|int, "service": bool,
              "sealed": bool, "size": n, "deprecated": bool, "legacy": bool,
              "refs": [{"to": j, "absolute": bool, "array": null|["le", n]|["fixed", n]}]} ...]}
A definition's text: `uint32 ID = <index>`, `uint8[<size>] payload` (size >= 1), one field per reference, the mode.
References go to lower indices only (acyclic by construction); faults are injected explicitly by the properties.
"""
from __future__ import annotations

import os
import typing

from hypothesis import strategies as st

ROOT_NAMES = ["ns", "ns", "vendor", "zeta", "Alpha"]
SUBS = ["sub", "deep", "x1", "Node", "A", "Msgs"]
SHORTS = ["A", "B", "C", "Msg", "Zed", "a1", "Foo2", "Foo10", "Fo", "msg", "b", "zed"]  # incl. names that differ by letter case only (never with one version)


def definitions(max_defs: int = 8, roots: int = 2, versions: bool = True, shorts: typing.Optional[typing.List[str]] = None, subs: typing.Optional[typing.List[str]] = None, min_roots: int = 1, min_defs: int = 1, same_name: bool = False) -> st.SearchStrategy:
    def build(args: typing.Any) -> typing.Any:
        root_specs, raw = args
        roots_ = []
        for i, name in enumerate(root_specs):
            roots_.append({"parent": "p%d" % i, "name": name})
        defs: typing.List[typing.Any] = []
        seen = set()
        for d in raw:
            d = dict(d)
            d["root"] = d["root"] % len(roots_)
            alike = d.pop("alike", 0)
            if alike == 1 and defs:
                # another version of the previous definition's name whose digits read the same when run together
                # (1.10 / 11.0, 1.23 / 12.3, 25.5 / 2.55): versions are pairs of numbers, not strings
                e = defs[-1]
                twins = lookalike_versions(e["version"])
                if twins:
                    d["root"], d["ns"], d["short"], d["legacy"] = e["root"], list(e["ns"]), e["short"], e["legacy"]
                    d["version"] = twins[len(raw) % len(twins)]
            if alike == 2 and defs:
                # a namesake of the previous definition up to letter case (with another version, or the key below would repeat):
                # ns.Msg.2.0 next to ns.mSG.3.0 are two unrelated types
                e = defs[-1]
                twin_short = e["short"].swapcase()
                if twin_short != e["short"]:
                    v = list(d["version"]) if list(d["version"]) != list(e["version"]) else [e["version"][0], (e["version"][1] + 1) % 256 or 1]
                    d["root"], d["ns"], d["short"], d["version"], d["legacy"] = e["root"], list(e["ns"]), twin_short, v, e["legacy"]
            key = (roots_[d["root"]]["name"], tuple(d["ns"]), d["short"].lower(), tuple(d["version"]))
            # (full name, version) is unique across the workspace, as the Specification demands
            if key in seen:
                continue
            seen.add(key)
            refs = []
            for r in d.pop("raw_refs"):
                if not defs:
                    break
                to = r["to"] % len(defs)
                tgt = defs[to]
                same_ns = roots_[tgt["root"]]["name"] == roots_[d["root"]]["name"] and tgt["ns"] == d["ns"]
                if tgt["service"]:
                    continue  # a service type cannot be a field type
                refs.append({"to": to, "absolute": (not same_ns) or r["absolute"], "array": r["array"], "expr": bool(r.get("expr"))})
            d["refs"] = refs
            # minor versions under one major keep kind, sealing and extent: make siblings layout-identical (they still differ
            # in their ID constant and version)
            for e in defs:
                if (roots_[e["root"]]["name"], e["ns"], e["short"], e["version"][0]) == (roots_[d["root"]]["name"], d["ns"], d["short"], d["version"][0]):
                    for key_ in ("service", "sealed", "size", "refs"):
                        d[key_] = e[key_]
                    break
            defs.append(d)
        if not defs:
            defs.append({"root": 0, "ns": [], "short": "A", "version": [1, 0], "port": None, "service": False, "sealed": True, "size": 1,
                         "deprecated": False, "legacy": False, "refs": []})
        return {"roots": roots_, "defs": defs}

    version = st.one_of(
        st.sampled_from([[1, 0], [1, 0], [1, 1], [2, 0], [0, 1], [1, 2], [255, 255], [1, 10], [10, 0], [9, 1], [100, 2]]),
        st.sampled_from([[1, 10], [11, 0], [1, 23], [12, 3], [2, 15], [21, 5], [25, 5], [2, 55], [1, 11], [11, 1], [10, 1], [1, 1], [0, 10], [1, 100], [110, 0]]),
        st.tuples(st.integers(0, 255), st.integers(0, 255)).filter(lambda v: v != (0, 0)).map(list),
    ) if versions else st.just([1, 0])
    one = st.fixed_dictionaries(
        {
            "root": st.integers(0, 3),
            "ns": st.lists(st.sampled_from(subs or SUBS), max_size=2),
            "short": st.sampled_from(shorts or SHORTS),
            "version": version,
            "port": st.none(),
            "service": st.sampled_from([False, False, False, True]),
            "sealed": st.booleans(),
            "size": st.integers(1, 4),
            "deprecated": st.just(False),
            "legacy": st.sampled_from([False, False, False, True]),
            "alike": st.sampled_from([0, 0, 0, 0, 1, 2]) if versions else st.just(0),
            "raw_refs": st.lists(
                st.fixed_dictionaries({"to": st.integers(0, 20), "absolute": st.booleans(), "array": st.sampled_from([None, None, ["le", 2], ["fixed", 2]]), "expr": st.booleans()}), max_size=3
            ),
        }
    )
    if same_name:
        # several directories (in different parents) contribute to one root namespace
        root_lists = st.tuples(st.sampled_from(["ns", "vendor"]), st.integers(max(2, min_roots), max(2, roots))).map(lambda t: [t[0]] * t[1])
    else:
        root_lists = st.lists(st.sampled_from(ROOT_NAMES), min_size=min_roots, max_size=roots, unique=True)
    return st.tuples(root_lists, st.lists(one, min_size=min_defs, max_size=max_defs)).map(build)


def lookalike_versions(v: typing.Sequence[int]) -> typing.List[typing.List[int]]:
    """Other valid versions whose decimal digits, run together, read like those of v."""
    digits = "%d%d" % (v[0], v[1])
    out = []
    for i in range(1, len(digits)):
        a, b = digits[:i], digits[i:]
        if (len(a) > 1 and a[0] == "0") or (len(b) > 1 and b[0] == "0"):
            continue
        x, y = int(a), int(b)
        if x <= 255 and y <= 255 and (x, y) != (0, 0) and [x, y] != list(v):
            out.append([x, y])
    return out


# ------------------------------------------------------------------------------------------------------------- the model


def full_name(ws: typing.Any, d: typing.Any) -> str:
    return ".".join([ws["roots"][d["root"]]["name"]] + list(d["ns"]) + [d["short"]])


def file_name(d: typing.Any) -> str:
    port = "" if d.get("port") is None else "%d." % d["port"]
    return "%s%s.%d.%d.%s" % (port, d["short"], d["version"][0], d["version"][1], "uavcan" if d.get("legacy") else "dsdl")


def rel_path(ws: typing.Any, d: typing.Any) -> str:
    r = ws["roots"][d["root"]]
    return os.path.join(r["parent"], r["name"], *d["ns"], file_name(d))


def root_dir(ws: typing.Any, i: int) -> str:
    r = ws["roots"][i]
    return os.path.join(r["parent"], r["name"])


def ref_text(ws: typing.Any, d: typing.Any, ref: typing.Any) -> str:
    t = ws["defs"][ref["to"]]
    name = full_name(ws, t) if ref["absolute"] else t["short"]
    text = "%s.%d.%d" % (name, t["version"][0], t["version"][1])
    if ref["array"] is not None:
        text += "[<=%d]" % ref["array"][1] if ref["array"][0] == "le" else "[%d]" % ref["array"][1]
    return text


def body(ws: typing.Any, idx: int, d: typing.Any, with_id: bool = True) -> typing.List[str]:
    lines = []
    if d.get("deprecated"):
        lines.append("@deprecated")
    if with_id:
        lines.append("uint32 ID = %d" % idx)
        lines.append("uint16 REV = %d" % d.get("rev", 0))  # a revision counter that histories bump by editing the file
    lines.append("uint8[%d] payload" % d["size"])
    for k, ref in enumerate(d["refs"]):
        lines.append("%s ref%d" % (ref_text(ws, d, ref), k))
    for k, ref in enumerate(d["refs"]):
        # a constant of the referenced definition read through an expression: must be that definition's *current* value
        lines.append("uint16 COPY%d = %s.REV" % (k, ref_text(ws, d, dict(ref, array=None))))
    for k, ref in enumerate(d["refs"]):
        if ref.get("expr"):
            # the same reference once more inside an expression: resolution must give the same definition there
            lines.append("@assert %s.ID == %d" % (ref_text(ws, d, dict(ref, array=None)), ref["to"]))
    return lines


def spec_of(ws: typing.Any, idx: int) -> typing.Any:
    """Layout spec (vf.ref.layout) of definition idx (request part for services)."""
    d = ws["defs"][idx]
    fields: typing.List[typing.Any] = [["payload", ["fixed", ["uint", 8, "sat"], d["size"]]]]
    for k, ref in enumerate(d["refs"]):
        t = spec_of(ws, ref["to"])
        if ref["array"] is not None:
            t = ["var" if ref["array"][0] == "le" else "fixed", t, ref["array"][1]]
        fields.append(["ref%d" % k, t])
    inner = ["struct", fields]
    return inner if d["sealed"] else ["delim", inner, 2]


def mode_line(ws: typing.Any, idx: int) -> str:
    from ..ref import layout

    d = ws["defs"][idx]
    if d["sealed"]:
        return "@sealed"
    return "@extent %d" % layout.extent(layout.freeze(spec_of(ws, idx)))


def text_of(ws: typing.Any, idx: int) -> str:
    d = ws["defs"][idx]
    if "text" in d:
        return d["text"]
    lines = body(ws, idx, d) + [mode_line(ws, idx)]
    if d["service"]:
        lines += ["---", "uint8 status", "@sealed"]
    return "\n".join(lines) + "\n"


def write(ws: typing.Any, directory: str) -> None:
    for i in range(len(ws["roots"])):
        os.makedirs(os.path.join(directory, root_dir(ws, i)), exist_ok=True)
    for i, d in enumerate(ws["defs"]):
        p = os.path.join(directory, rel_path(ws, d))
        os.makedirs(os.path.dirname(p), exist_ok=True)
        with open(p, "w", newline="") as f:
            f.write(text_of(ws, i))


def sort_key(ws: typing.Any, idx: int) -> typing.Tuple[str, int, int]:
    d = ws["defs"][idx]
    return (full_name(ws, d), -d["version"][0], -d["version"][1])


def closure(ws: typing.Any, targets: typing.Iterable[int]) -> typing.Set[int]:
    out: typing.Set[int] = set()
    stack = list(targets)
    while stack:
        i = stack.pop()
        if i in out:
            continue
        out.add(i)
        stack.extend(r["to"] for r in ws["defs"][i]["refs"])
    return out


def defs_under_root(ws: typing.Any, root_index: int) -> typing.List[int]:
    return [i for i, d in enumerate(ws["defs"]) if d["root"] == root_index]


# --------------------------------------------------------------------------------------------------------- fingerprints


def fingerprint(t: typing.Any, depth: int = 6) -> typing.Any:
    """Deep, path-free description of a composite (nested composites are expanded)."""
    import pydsdl

    def ftype(x: typing.Any, dep: int) -> typing.Any:
        if isinstance(x, pydsdl.CompositeType):
            return fingerprint(x, dep - 1) if dep > 0 else str(x)
        if isinstance(x, pydsdl.ArrayType):
            return [type(x).__name__, x.capacity, ftype(x.element_type, dep)]
        return str(x)

    if isinstance(t, pydsdl.ServiceType):
        return {"service": str(t), "port": t.fixed_port_id, "deprecated": t.deprecated, "request": fingerprint(t.request_type, depth), "response": fingerprint(t.response_type, depth)}
    return {
        "name": str(t),
        "cls": type(t).__name__,
        "inner": type(t.inner_type).__name__,
        "port": t.fixed_port_id,
        "deprecated": t.deprecated,
        "extent": t.extent,
        "fields": [[f.name, ftype(f.data_type, depth)] for f in t.fields],
        "constants": [[c.name, str(c.value)] for c in t.constants],
    }


def ident(t: typing.Any) -> typing.Tuple[str, int, int]:
    return (t.full_name, t.version.major, t.version.minor)
