"""G-DEF / G-FORMAT: definition models, their rendering to DSDL text in many formattings, and the expected fingerprint.

A definition model (plain data):
  {"service": bool, "deprecated": bool, "sections": [section, (section)]}
  section = {"union": bool, "header": [comment lines], "items": [item...], "mode": ["sealed"] | ["extent", slack_bytes],
             "mode_pos": int (where the @sealed directive goes among the items; @extent always goes after the last attribute)}
  item = {"k": "field", "type": typespec, "name": str, "same": comment-or-null, "after": [comment lines], "gap": bool}
       | {"k": "pad", "n": int, ...same/after/gap}
       | {"k": "const", "type": primitive spec, "name": str, "expr": text, "value": ["int", n] | ["frac", p, q] | ["bool", b], ...}
       | {"k": "dir", "text": "@assert true" | "@print 1"}          (neutral directives)
       | {"k": "orphan", "lines": [comment lines]}                  (a comment block that attaches to nothing)
  gap = an empty line follows the item (terminates its doc block)

Comment rule modelled (the one the code documents and its unit tests pin down): the header doc of a section is the leading
block of comment lines up to the first empty line or statement; an attribute's doc is the comment on its own line plus
the directly following comment-only lines; any other comment attaches to nothing.  "# x" -> "x", "#x" -> "x".
"""
from __future__ import annotations

import typing
from fractions import Fraction

from hypothesis import strategies as st

from ..ref import layout
from . import types as gt
from .materialize import TextBuilder, dsdl_type_text

IDENT_POOL = ["a", "b", "c", "d", "e", "f", "g", "h", "value", "x1", "field_name", "Z", "camelCase", "_under", "q_", "v2"]
CONST_POOL = ["A", "B", "C", "D", "E", "F", "MAX", "MIN_VALUE", "k9", "Const_1"]
# any character but CR / LF may appear in a comment; the second alphabet holds the ones that *other* notions of "line" split at
COMMENT_TEXT = st.one_of(
    st.text(alphabet="abcXYZ 019_-+*/#'\"@{}().,;:!?<=>\t", max_size=12),
    st.text(alphabet="ab #\x0b\x0c\x1c\x1d\x1e\x85\u2028\u2029\u00a0\ufeff\u200b", max_size=6),
)


def comment_line() -> st.SearchStrategy:
    """The raw text after '#'."""
    return st.one_of(st.just(""), st.just(" doc"), COMMENT_TEXT, COMMENT_TEXT.map(lambda s: " " + s)).map(lambda s: s.rstrip(" \t") if False else s)


def doc_of(raw: str) -> str:
    """Model of comment text extraction: one leading space after '#' is dropped if present."""
    return raw[1:] if raw.startswith(" ") else raw


def join_doc(raw_lines: typing.Iterable[str]) -> str:
    """Model of comment accumulation: lines are joined with a newline, except that nothing is put before the first
    non-empty contribution (empty comment lines at the start of a block leave no trace)."""
    acc = ""
    for raw in raw_lines:
        line = doc_of(raw)
        acc = (acc + "\n" + line) if acc != "" else line
    return acc


def const_value(spec: typing.Any) -> st.SearchStrategy:
    """(expression text, expected value) for a constant of primitive type `spec`, always within range."""
    k = spec[0]
    if k == "bool":
        return st.sampled_from([("true", ["bool", True]), ("false", ["bool", False]), ("!false", ["bool", True]), ("1 == 1", ["bool", True])])
    if k in ("uint", "int"):
        w = spec[1]
        lo, hi = (0, (1 << w) - 1) if k == "uint" else (-(1 << (w - 1)), (1 << (w - 1)) - 1)
        corners = {lo, hi, 0 if lo <= 0 <= hi else lo, max(lo, min(hi, 1))}
        if k == "uint" and w == 8:
            corners.add(10)  # may be spelled as a character literal that holds a raw line break
        n = st.one_of(st.sampled_from(sorted(corners)), st.integers(lo, hi))

        def spell(args: typing.Tuple[int, int]) -> typing.Tuple[str, typing.Any]:
            v, style = args
            a = abs(v)
            body = [str(a), hex(a), bin(a), oct(a), "0X%X" % a, "%d" % a][style % 6]
            if style % 6 == 5 and a >= 1000:
                s = str(a)
                body = s[:-3] + "_" + s[-3:]
            if style % 7 == 6 and k == "uint" and w == 8 and 32 <= v < 127 and chr(v) not in "'\\":
                return "'%s'" % chr(v), ["int", v]
            if style % 2 == 0 and k == "uint" and w == 8 and v == 10:
                # a raw line break inside the literal: the renderer spells it like every other line ending of the file (LF or CRLF),
                # and either way it is one line feed to the reader
                return ("'\n'" if style % 4 == 0 else '"\n"'), ["int", v]
            text = body if v >= 0 else "-" + body
            if style % 5 == 4 and lo <= v - 1:
                text = "%s + 1" % (str(v - 1) if v - 1 >= 0 else "-" + str(1 - v))
            return text, ["int", v]

        return st.tuples(n, st.integers(0, 41)).map(spell)
    if k == "float":
        fr = st.sampled_from(
            [("0.0", 0, 1), ("1.5", 3, 2), ("-2.25", -9, 4), ("1e3", 1000, 1), ("1_0.5", 21, 2), ("3/4", 3, 4), ("1E-2", 1, 100), (".5", 1, 2), ("7.", 7, 1),
             ("65504", 65504, 1), ("-65504.0", -65504, 1), ("1/3", 1, 3), ("0x10", 16, 1), ("2 ** -3", 1, 8)]
        )
        return fr.map(lambda t: (t[0], ["frac", t[1], t[2]]))
    raise ValueError(spec)


def _literal(v: typing.Any) -> str:
    if v[0] == "bool":
        return "true" if v[1] else "false"
    if v[0] == "int":
        return str(v[1]) if v[1] >= 0 else "(-%d)" % -v[1]
    return "(%d/%d)" % (v[1], v[2])


def _fits(spec: typing.Any, v: typing.Any) -> bool:
    k = spec[0]
    if k == "bool" or v[0] == "bool":
        return k == "bool" and v[0] == "bool"
    if k == "float":
        return abs(Fraction(v[1], v[2] if v[0] == "frac" else 1)) <= 65504
    if v[0] != "int":
        return False
    w = spec[1]
    lo, hi = (0, (1 << w) - 1) if k == "uint" else (-(1 << (w - 1)), (1 << (w - 1)) - 1)
    return lo <= v[1] <= hi


def _refer(spec: typing.Any, expr: str, value: typing.Any, earlier: typing.Sequence[typing.Tuple[str, typing.Any]], mode: int) -> typing.Tuple[str, typing.Any]:
    """Optionally respell a constant's initialiser through constants defined earlier in the same section (identifier lookup
    is per section: after `---` the same names may be defined anew with other values)."""
    if not earlier or mode == 0:
        return expr, value
    fitting = [(n, v) for n, v in earlier if _fits(spec, v)]
    numeric = [(n, v) for n, v in earlier if v[0] != "bool"]
    if mode in (1, 2) and fitting:
        n, v = fitting[-1] if mode == 1 else fitting[0]
        return n, v
    if mode in (3, 4) and numeric and spec[0] != "bool" and not expr.startswith(("'", '"')):  # (a character literal is no number yet)
        n, _ = numeric[-1] if mode == 3 else numeric[0]
        return "%s + %s - %s" % (expr, n, n), value
    if mode == 5 and spec[0] == "bool":
        n, v = earlier[-1]
        return "%s == %s" % (n, _literal(v)), ["bool", True]
    if mode == 6 and spec[0] == "bool":
        n, v = earlier[0]
        return "%s != %s" % (n, _literal(v)), ["bool", False]
    return expr, value


def const_type() -> st.SearchStrategy:
    return st.one_of(
        st.just(["bool"]),
        st.tuples(gt.WIDTHS, st.sampled_from(["sat", "trunc"])).map(lambda t: ["uint", t[0], t[1]]),
        st.just(["uint", 8, "sat"]),
        gt.WIDTHS.filter(lambda w: w >= 2).map(lambda w: ["int", w]),
        st.tuples(st.sampled_from([16, 32, 64]), st.sampled_from(["sat", "trunc"])).map(lambda t: ["float", t[0], t[1]]),
    )


def _docs() -> typing.Dict[str, st.SearchStrategy]:
    return {
        "same": st.one_of(st.none(), st.none(), comment_line()),
        "after": st.one_of(st.just([]), st.just([]), st.lists(comment_line(), min_size=1, max_size=3)),
        "gap": st.booleans(),
    }


def section(max_items: int = 8) -> st.SearchStrategy:
    ftypes = gt.field_types(gt.small_capacity(), max_leaves=4)

    def build(args: typing.Any) -> typing.Any:
        union, header, raw_items, mode, mode_pos = args
        items = []
        earlier: typing.List[typing.Tuple[str, typing.Any]] = []  # constants of this section defined so far: (name, value)
        fi = ci = 0
        n_fields = 0
        for it in raw_items:
            it = dict(it)
            if it["k"] == "field":
                it["name"] = IDENT_POOL[fi % len(IDENT_POOL)] + ("" if fi < len(IDENT_POOL) else str(fi))
                fi += 1
                n_fields += 1
            elif it["k"] == "const":
                it["name"] = CONST_POOL[ci % len(CONST_POOL)] + ("" if ci < len(CONST_POOL) else str(ci))
                ci += 1
                expr, value = it.pop("ev")
                it["expr"], it["value"] = _refer(it["type"], expr, value, earlier, it.pop("ref", 0))
                earlier.append((it["name"], it["value"]))
            elif it["k"] == "pad" and union:
                continue  # no padding in unions
            if it["k"] == "field":
                # the capacity of a top-level array may be spelled through an earlier constant of this section
                r = it.pop("ref", 0)
                caps = [(n, v[1]) for n, v in earlier if v[0] == "int" and 1 <= v[1] <= 300]
                if r in (1, 2) and caps and it["type"][0] in ("fixed", "var"):
                    name, cap = caps[r % len(caps)] if r == 2 else caps[-1]
                    it["type"] = [it["type"][0], it["type"][1], cap]
                    it["cap_ref"] = name
            elif it["k"] == "dir":
                r = it.pop("ref", 0)
                if r != 0 and earlier and it["text"].startswith("@assert"):
                    name, v = earlier[-1] if r != 2 else earlier[0]
                    it["text"] = "@assert %s == %s" % (name, _literal(v))
            items.append(it)
        if union:
            # a union needs at least two variants
            while n_fields < 2:
                items.append({"k": "field", "type": ["uint", 8 + n_fields, "sat"], "name": "u%d" % n_fields, "same": None, "after": [], "gap": False})
                n_fields += 1
        return {"union": union, "header": header, "items": items, "mode": mode, "mode_pos": mode_pos}

    ref = st.sampled_from([0, 0, 0, 1, 1, 2, 2, 3, 4, 5, 6])
    const_item = st.fixed_dictionaries(dict(_docs(), k=st.just("const"), ref=ref, ev=const_type().flatmap(lambda t: const_value(t).map(lambda ev: (t, ev))))).map(
        lambda d: dict({x: y for x, y in d.items() if x != "ev"}, type=d["ev"][0], ev=d["ev"][1])
    )
    item = st.one_of(
        st.fixed_dictionaries(dict(_docs(), k=st.just("field"), type=ftypes, ref=ref)),
        st.fixed_dictionaries(dict(_docs(), k=st.just("field"), type=gt.primitive())),
        st.fixed_dictionaries(dict(_docs(), k=st.just("pad"), n=st.integers(1, 64))),
        const_item,
        const_item,
        const_item,
        st.fixed_dictionaries({"k": st.just("dir"), "ref": ref, "text": st.sampled_from(["@assert true", "@print 1", "@assert 2 > 1", "@print", "@assert true", "@print 1", "@assert 'a\nb' == 'a\\nb'", "@print 'x\n'", '@assert "\n\n" == "\\n" + \'\\n\'', "@assert '\n' != '\\r\\n'"])}),
        st.fixed_dictionaries({"k": st.just("orphan"), "lines": st.lists(comment_line(), min_size=1, max_size=2)}),
    )
    return st.tuples(
        st.booleans(),
        st.one_of(st.just([]), st.lists(comment_line(), min_size=1, max_size=3)),
        st.lists(item, max_size=max_items),
        st.one_of(st.just(["sealed"]), st.integers(0, 4).map(lambda s: ["extent", s])),
        st.integers(0, 12),
    ).map(build)


def _link(model: typing.Any, picks: typing.Sequence[int]) -> typing.Any:
    """Identifier lookup is per section: both sides of `---` define a constant of the same name with *different* values and
    both sides use theirs (in another constant, an assertion or an array capacity)."""
    if not model["service"] or picks[0] != 0:
        return model
    plain = {"same": None, "after": [], "gap": False}
    for si, sec in enumerate(model["sections"]):
        v = 1 + picks[1 + si] % 200
        if si == 1 and v == 1 + picks[1] % 200:
            v = v % 200 + 1
        items = list(sec["items"])
        p1 = picks[3 + si] % (len(items) + 1)
        items.insert(p1, dict(plain, k="const", type=["uint", 8, "sat"], name="SHARED", expr=str(v), value=["int", v]))
        p2 = p1 + 1 + picks[5 + si] % (len(items) - p1)
        how = picks[7 + si] % 4
        if how == 0:
            user = dict(plain, k="const", type=["uint", 16, "sat"], name="SHARED_USE", expr="SHARED", value=["int", v])
        elif how == 1:
            user = {"k": "dir", "text": "@assert SHARED == %d" % v}
        elif how == 2:
            user = dict(plain, k="field", type=["var", ["uint", 8, "sat"], v], name="shared_arr", cap_ref="SHARED")
        else:
            user = dict(plain, k="const", type=["bool"], name="SHARED_EQ", expr="SHARED * 2 == %d" % (2 * v), value=["bool", True])
        items.insert(p2, user)
        sec["items"] = items
    return model


def definitions() -> st.SearchStrategy:
    return st.tuples(st.booleans(), st.booleans(), section(), section(5), st.tuples(st.integers(0, 2), *([st.integers(0, 2**16)] * 8))).map(
        lambda t: _link({"service": t[0], "deprecated": t[1], "sections": [t[2], t[3]] if t[0] else [t[2]]}, t[4])
    )


def formats() -> st.SearchStrategy:
    return st.fixed_dictionaries(
        {
            "eol": st.sampled_from(["\n", "\n", "\r\n"]),
            "final": st.sampled_from(["none", "one", "two"]),
            "sep": st.sampled_from([" ", " ", "  ", "\t", " \t "]),
            "opt": st.sampled_from(["", "", " ", "  ", "\t"]),
            "trail": st.sampled_from(["", "", " ", " \t"]),
            "blank_lines": st.sampled_from([False, False, True]),
            "noise": st.integers(0, 2**32 - 1),  # drives the neutral insertions (whitespace-only lines, empty lines before statements, orphans)
        }
    )


# ------------------------------------------------------------------------------------------------------------- rendering


class _Lcg:
    def __init__(self, seed: int) -> None:
        self.s = seed & 0xFFFFFFFF

    def next(self, n: int) -> int:
        if self.s == 0:
            return 0
        self.s = (self.s * 1664525 + 1013904223) & 0xFFFFFFFF
        return (self.s >> 8) % n


CANONICAL = {"eol": "\n", "final": "one", "sep": " ", "opt": "", "trail": "", "noise": 0}


def section_spec(sec: typing.Any) -> typing.Any:
    fields = []
    for it in sec["items"]:
        if it["k"] == "field":
            fields.append([it["name"], it["type"]])
        elif it["k"] == "pad":
            fields.append(["", ["void", it["n"]]])
    return ["union" if sec["union"] else "struct", fields]


def section_extent(sec: typing.Any) -> typing.Optional[int]:
    if sec["mode"][0] == "sealed":
        return None
    return layout.inner_max(layout.freeze(section_spec(sec))) + 8 * sec["mode"][1]


def render_type(spec: typing.Any, refs: typing.Dict[int, str], fmt: typing.Any, rnd: _Lcg, cap_ref: typing.Optional[str] = None) -> str:
    """Field type with formatting freedom inside array brackets and after cast-mode keywords."""
    k = spec[0]
    o = fmt["opt"]
    if cap_ref is not None and k in ("fixed", "var"):
        inner = render_type(spec[1], refs, fmt, rnd)
        if k == "fixed":
            return "%s%s[%s%s%s]" % (inner, o, o, cap_ref, o)
        if rnd.next(3) == 1:
            return "%s%s[%s<%s%s + 1%s]" % (inner, o, o, o, cap_ref, o)
        return "%s%s[%s<=%s%s%s]" % (inner, o, o, o, cap_ref, o)
    if k == "fixed":
        return "%s%s[%s%d%s]" % (render_type(spec[1], refs, fmt, rnd), o, o, spec[2], o)
    if k == "var":
        if rnd.next(3) == 1:
            return "%s%s[%s<%s%d%s]" % (render_type(spec[1], refs, fmt, rnd), o, o, o, spec[2] + 1, o)
        return "%s%s[%s<=%s%d%s]" % (render_type(spec[1], refs, fmt, rnd), o, o, o, spec[2], o)
    text = dsdl_type_text(spec, refs)
    if k in ("uint", "int", "float"):
        if text.startswith("truncated "):
            return "truncated" + fmt["sep"] + text[len("truncated "):]
        if rnd.next(3) == 1:
            return "saturated" + fmt["sep"] + text
    return text


def render(model: typing.Any, fmt: typing.Any, tb: TextBuilder) -> str:
    """Renders the definition; dependency composites of field types are emitted into `tb` (files T<n>.1.0.dsdl)."""
    rnd = _Lcg(fmt["noise"])
    lines: typing.List[str] = []
    sep, opt, trail = fmt["sep"], fmt["opt"], fmt["trail"]

    def empty() -> str:
        """An empty line - or, in plans that say so, a line of blanks only: trailing blanks are not supposed to matter."""
        if fmt.get("blank_lines") and rnd.next(2):
            return [" ", "\t", "  \t "][rnd.next(3)]
        return ""

    def neutral_before_statement() -> None:
        r = rnd.next(6)
        if r == 1:
            lines.append(" \t"[: 1 + rnd.next(2)])  # whitespace-only line: no effect at all
        elif r == 2:
            lines.append(empty())  # empty line directly before a statement: flushes what the statement would flush anyway
        elif r == 3:
            lines.append(empty())
            lines.append("# orphan comment %d" % rnd.next(100))
        elif r == 4:
            lines.append(empty())
            lines.append(empty())

    def statement(text: str, same: typing.Optional[str] = None) -> None:
        neutral_before_statement()
        text = text.replace("\n", fmt["eol"])  # a line break inside a string literal is a line ending of the file like any other
        if same is not None:
            lines.append(text + opt + "#" + same)
        else:
            lines.append(text + trail)

    for si, sec in enumerate(model["sections"]):
        if si == 1:
            statement("---" + "-" * rnd.next(3))
        for c in sec["header"]:
            lines.append("#" + c)
        if sec["header"]:
            pass  # the first statement or empty line terminates the header block
        if model["deprecated"] and si == 0:
            statement("@deprecated")
        if sec["union"]:
            statement("@union")
        attr_positions = [i for i, it in enumerate(sec["items"]) if it["k"] in ("field", "pad", "const")]
        sealed_at = None
        if sec["mode"][0] == "sealed":
            sealed_at = sec["mode_pos"] % (len(sec["items"]) + 1)
        for i, it in enumerate(sec["items"]):
            if sealed_at == i:
                statement("@sealed")
            k = it["k"]
            if k == "dir":
                statement(it["text"])
                continue
            if k == "orphan":
                lines.append(empty())
                for c in it["lines"]:
                    lines.append("#" + c)
                lines.append(empty())
                continue
            if k == "field":
                tb.emit(it["type"])
                text = render_type(it["type"], tb.refs, fmt, rnd, it.get("cap_ref")) + sep + it["name"]
            elif k == "pad":
                text = "void%d" % it["n"]
            else:
                text = render_type(it["type"], tb.refs, fmt, rnd) + sep + it["name"] + opt + "=" + opt + it["expr"]
            statement(text, it["same"])
            for c in it["after"]:
                lines.append((" " if rnd.next(4) == 1 else "") + "#" + c)
            if it["gap"]:
                lines.append(empty())
        if sealed_at is not None and sealed_at == len(sec["items"]):
            statement("@sealed")
        if sec["mode"][0] == "extent":
            ext = section_extent(sec)
            statement("@extent" + sep + (str(ext) if rnd.next(2) else "%d%s*%s8" % (ext // 8, opt, opt)))
    body = fmt["eol"].join(lines)
    if fmt["final"] == "one":
        body += fmt["eol"]
    elif fmt["final"] == "two":
        body += fmt["eol"] * 2
    return body


# --------------------------------------------------------------------------------------------------- expected fingerprint


def type_string(spec: typing.Any, refs: typing.Dict[int, str], root: str) -> str:
    k = spec[0]
    if k in ("struct", "union", "delim"):
        r = refs[id(spec)]
        return r if r.startswith(root + ".") else "%s.%s" % (root, r)
    if k == "fixed":
        return "%s[%d]" % (type_string(spec[1], refs, root), spec[2])
    if k == "var":
        return "%s[<=%d]" % (type_string(spec[1], refs, root), spec[2])
    return layout.type_string(spec)


def expected_section(sec: typing.Any, refs: typing.Dict[int, str], root: str, with_docs: bool) -> typing.Any:
    fields = []
    consts = []
    for it in sec["items"]:
        if it["k"] not in ("field", "pad", "const"):
            continue
        doc = join_doc(([it["same"]] if it["same"] is not None else []) + list(it["after"]))
        if it["k"] == "field":
            fields.append(["Field", type_string(it["type"], refs, root), it["name"]] + ([doc] if with_docs else []))
        elif it["k"] == "pad":
            fields.append(["PaddingField", "void%d" % it["n"], ""] + ([doc] if with_docs else []))
        else:
            v = it["value"]
            val = str(Fraction(v[1], v[2])) if v[0] == "frac" else str(v[1]) if v[0] == "int" else ("true" if v[1] else "false")
            consts.append([layout.type_string(it["type"]), it["name"], val] + ([doc] if with_docs else []))
    out = {
        "union": sec["union"],
        "extent": section_extent(sec),
        "fields": fields,
        "constants": consts,
    }
    if with_docs:
        out["doc"] = join_doc(sec["header"])
    return out


def deep_expected(spec: typing.Any) -> str:
    """Structural spelling of a field type: nested composites are spelled out (fields and all) instead of being named."""
    k = spec[0]
    if k == "fixed":
        return "%s[%d]" % (deep_expected(spec[1]), spec[2])
    if k == "var":
        return "%s[<=%d]" % (deep_expected(spec[1]), spec[2])
    if k == "delim":
        return "delimited(%s, %d)" % (deep_expected(spec[1]), layout.extent(layout.freeze(spec)))
    if k in ("struct", "union"):
        return "%s{%s}" % (k, "; ".join((deep_expected(t) + " " + n).strip() for n, t in spec[1]))
    return layout.type_string(spec)


def deep_observed(t: typing.Any) -> str:
    """The same spelling taken from the objects the library returned (what is really inside an array's element type, a nested field...)."""
    import pydsdl

    if isinstance(t, pydsdl.FixedLengthArrayType):
        return "%s[%d]" % (deep_observed(t.element_type), t.capacity)
    if isinstance(t, pydsdl.VariableLengthArrayType):
        return "%s[<=%d]" % (deep_observed(t.element_type), t.capacity)
    if isinstance(t, pydsdl.DelimitedType):
        return "delimited(%s, %d)" % (deep_observed(t.inner_type), t.extent)
    if isinstance(t, pydsdl.CompositeType):
        k = "union" if isinstance(t, pydsdl.UnionType) else "struct"
        return "%s{%s}" % (k, "; ".join((deep_observed(f.data_type) + " " + f.name).strip() for f in t.fields))
    return str(t)


def expected_fingerprint(model: typing.Any, refs: typing.Dict[int, str], root: str, with_docs: bool = True) -> typing.Any:
    secs = [expected_section(s, refs, root, with_docs) for s in model["sections"]]
    return {"service": model["service"], "deprecated": model["deprecated"], "sections": secs}


def observed_section(t: typing.Any, with_docs: bool) -> typing.Any:
    import pydsdl

    inner = t.inner_type
    fields = []
    for f in t.fields:
        fields.append([type(f).__name__, str(f.data_type), f.name] + ([f.doc] if with_docs else []))
    consts = []
    for c in t.constants:
        v = c.value
        if isinstance(v, pydsdl.Rational):
            val = str(Fraction(v.native_value))
        elif isinstance(v, pydsdl.Boolean):
            val = "true" if v.native_value else "false"
        else:
            val = "?" + repr(v)
        consts.append([str(c.data_type), c.name, val] + ([c.doc] if with_docs else []))
    out = {
        "union": isinstance(inner, pydsdl.UnionType),
        "extent": t.extent if isinstance(t, pydsdl.DelimitedType) else None,
        "fields": fields,
        "constants": consts,
    }
    if with_docs:
        out["doc"] = t.doc
    return out


def observed_fingerprint(t: typing.Any, with_docs: bool = True) -> typing.Any:
    import pydsdl

    if isinstance(t, pydsdl.ServiceType):
        secs = [observed_section(t.request_type, with_docs), observed_section(t.response_type, with_docs)]
        # attributes order: fields then constants, and the accessor views agree with each other
        return {"service": True, "deprecated": t.deprecated, "sections": secs}
    return {"service": False, "deprecated": t.deprecated, "sections": [observed_section(t, with_docs)]}


def canonical_text(t: typing.Any) -> str:
    """Render a returned model back to canonical DSDL (for the re-read round trip)."""
    import pydsdl

    def sec(c: typing.Any, deprecated: bool) -> typing.List[str]:
        out = []
        if c.doc:
            out += ["#" + (" " + l if True else l) for l in c.doc.split("\n")]
            out.append("")
        elif True:
            pass
        if deprecated:
            out.append("@deprecated")
        if isinstance(c.inner_type, pydsdl.UnionType):
            out.append("@union")
        for a in c.attributes:
            doc_lines = a.doc.split("\n") if a.doc else []
            first = str(a)
            if doc_lines:
                first += " # " + doc_lines[0]
            out.append(first)
            for l in doc_lines[1:]:
                out.append("# " + l)
            out.append("")
        if isinstance(c, pydsdl.DelimitedType):
            out.append("@extent %d" % c.extent)
        else:
            out.append("@sealed")
        return out

    if isinstance(t, pydsdl.ServiceType):
        lines = sec(t.request_type, t.deprecated) + ["---"] + sec(t.response_type, False)
    else:
        lines = sec(t, t.deprecated)
    return "\n".join(lines) + "\n"
