"""G-TYPE / G-VALUE: Hypothesis strategies for type specs (see vf.ref.layout) and for values of a given spec."""
from __future__ import annotations

import typing

from hypothesis import strategies as st

from ..ref import layout, codec

WIDTHS = st.one_of(st.sampled_from([1, 2, 3, 7, 8, 9, 15, 16, 17, 31, 32, 33, 63, 64]), st.integers(1, 64))


def primitive() -> st.SearchStrategy:
    return st.one_of(
        st.just(["bool"]),
        st.tuples(WIDTHS, st.sampled_from(["sat", "trunc"])).map(lambda t: ["uint", t[0], t[1]]),
        WIDTHS.filter(lambda w: w >= 2).map(lambda w: ["int", w]),
        st.tuples(st.sampled_from([16, 32, 64]), st.sampled_from(["sat", "trunc"])).map(lambda t: ["float", t[0], t[1]]),
    )


def small_capacity() -> st.SearchStrategy:
    return st.one_of(st.integers(1, 4), st.integers(1, 4), st.integers(1, 12))


def layout_capacity() -> st.SearchStrategy:
    """Capacities for layout-only checks: every prefix boundary and far beyond anything expandable."""
    return st.one_of(
        st.integers(1, 9),
        st.sampled_from([255, 256, 257, 65535, 65536, 65537, 2**32 - 1, 2**32, 2**32 + 1, 2**63 - 1, 2**63, 2**64 - 1]),
        st.builds(lambda e, off: max(1, (1 << e) + off), st.integers(1, 63), st.integers(-2, 2)),
    )


NAMES = ["a", "b", "c", "d", "e", "f", "g", "h"]


def _fields(element: st.SearchStrategy, allow_void: bool, min_size: int, max_size: int) -> st.SearchStrategy:
    item = element if not allow_void else st.one_of(element, element, element, st.integers(1, 64).map(lambda n: ["void", n]))

    def name_them(ts: typing.List[typing.Any]) -> typing.List[typing.Any]:
        out = []
        i = 0
        for t in ts:
            if t[0] == "void":
                out.append(["", t])
            else:
                out.append([NAMES[i % len(NAMES)] + ("" if i < len(NAMES) else str(i)), t])
                i += 1
        return out

    return st.lists(item, min_size=min_size, max_size=max_size).map(name_them)


def field_types(capacity: st.SearchStrategy, max_leaves: int = 10, delimited: bool = True) -> st.SearchStrategy:
    """Anything that may be the type of a field: primitives, arrays, composites (nested)."""

    def arrays_of(elem: st.SearchStrategy, cap: st.SearchStrategy) -> st.SearchStrategy:
        return st.one_of(
            st.tuples(elem, cap).map(lambda t: ["fixed", t[0], t[1]]),
            st.tuples(elem, cap).map(lambda t: ["var", t[0], t[1]]),
        )

    special_arrays = st.one_of(
        capacity.map(lambda c: ["var", ["utf8"], c]),
        capacity.map(lambda c: ["var", ["byte"], c]),
        capacity.map(lambda c: ["fixed", ["byte"], c]),
    )
    base = st.one_of(primitive(), primitive(), arrays_of(primitive(), capacity), special_arrays)

    nconst = st.sampled_from([0, 0, 0, 1, 2])  # constants do not take part in the layout or on the wire

    def extend(children: st.SearchStrategy) -> st.SearchStrategy:
        struct = st.tuples(_fields(children, True, 0, 5), nconst).map(lambda t: ["struct", t[0], t[1]])
        union = st.tuples(_fields(children, False, 2, 4), nconst).map(lambda t: ["union", t[0], t[1]])
        comp = st.one_of(struct, struct, union)
        if delimited:
            comp = st.one_of(comp, comp, st.tuples(comp, st.integers(0, 3)).map(lambda t: ["delim", t[0], t[1]]))
        return st.one_of(comp, comp, arrays_of(comp, capacity))

    return st.recursive(base, extend, max_leaves=max_leaves)


def composites(capacity: typing.Optional[st.SearchStrategy] = None, max_leaves: int = 10, delimited: bool = True) -> st.SearchStrategy:
    """Top-level composite specs (struct / union / delimited)."""
    cap = capacity if capacity is not None else small_capacity()
    ft = field_types(cap, max_leaves=max_leaves, delimited=delimited)
    nconst = st.sampled_from([0, 0, 0, 1, 3])
    struct = st.tuples(_fields(ft, True, 0, 6), nconst).map(lambda t: ["struct", t[0], t[1]])
    union = st.tuples(_fields(ft, False, 2, 5), nconst).map(lambda t: ["union", t[0], t[1]])
    comp = st.one_of(struct, struct, union)
    if delimited:
        comp = st.one_of(comp, comp, st.tuples(comp, st.integers(0, 3)).map(lambda t: ["delim", t[0], t[1]]))
    return comp


# --------------------------------------------------------------------------------------------------------------- values


def _float_bits(w: int) -> st.SearchStrategy:
    """64-bit patterns of doubles: specials, values exactly representable in the narrow format, and arbitrary doubles."""
    specials = [0.0, -0.0, 1.0, -1.0, float("inf"), float("-inf"), float("nan"), 65504.0, 65505.0, 65519.9, 65520.0, -65520.0, 5.96e-8, 2.98e-8,
                3.4028234663852886e38, 3.4028235e38 * 1.0000001, 1e39, -1e39, 1.401298464324817e-45, 7e-46, 1.7976931348623157e308, 5e-324,
                0.1, 1 / 3, 1e-5, 123456.789]
    e_bits, m_bits = codec.FLOAT_FORMATS[w]
    exact = st.integers(0, (1 << w) - 1).map(lambda p: codec.ieee_decode(p, w)).filter(lambda d: not isinstance(d, str)).map(float)

    def tie(p: int) -> float:
        """Exactly halfway between two adjacent values of the narrow format (round-half-to-even must decide)."""
        a, b = codec.ieee_decode(p, w), codec.ieee_decode(p + 1, w)
        if isinstance(a, str) or isinstance(b, str):
            return 0.0
        return float((a + b) / 2)

    ties = st.integers(0, (1 << (w - 1)) - 2).map(tie) if w < 64 else st.just(0.0)
    threshold32 = float(2**128 - 2**103)  # the smallest magnitude that rounds to infinity in binary32
    edge = st.sampled_from([65519.999, 65520.0, 65520.001, -65520.0, threshold32, threshold32 * (1 - 2**-40), -threshold32, 2.0**-25, 2.0**-24 * 1.5, 2.0**-150, 2.0**-149 * 1.5])
    return st.one_of(
        ties,
        edge,
        st.sampled_from(specials),
        exact,
        st.floats(allow_nan=False, allow_infinity=False),
        st.floats(allow_nan=False, allow_infinity=False, width=32),
        st.floats(min_value=-70000, max_value=70000),
    ).map(lambda x: {"f": codec.f64_to_bits(float("nan")) if x != x else codec.f64_to_bits(x)})


def _ints_around(lo: int, hi: int, out_of_range: bool) -> st.SearchStrategy:
    inside = st.one_of(st.sampled_from(sorted({lo, hi, 0 if lo <= 0 <= hi else lo, min(hi, lo + 1), max(lo, hi - 1)})), st.integers(lo, hi))
    if not out_of_range:
        return inside
    # numbers may also be given as Python floats; only integral-valued ones are generated (how a fractional value is rounded is
    # not the property's business), e.g. 2.0**64 for a saturated uint64
    def as_float(n: int) -> typing.Any:
        x = float(n)
        return {"fint": n} if int(x) == n else n

    float_inputs = st.one_of(
        st.sampled_from([hi + 1, 2 * (hi + 1), lo - 1, -(1 << 70), 1 << 70, 1 << 64, 1 << 63, -(1 << 63), 1 << 53]).map(as_float),
        st.integers(max(lo, -(1 << 53)), min(hi, 1 << 53)).map(as_float),
        st.integers(50, 80).map(lambda e: as_float(1 << e)),
    )
    span = hi - lo + 1
    outside = st.one_of(
        st.sampled_from([lo - 1, hi + 1, lo - span, hi + span, hi + span + 1, -(1 << 70), 1 << 70]),
        st.integers(hi + 1, hi + 3 * span),
        st.integers(lo - 3 * span, lo - 1),
    )
    return st.one_of(inside, inside, outside, float_inputs)


def _utf8_bytes(n: int, exact: bool) -> st.SearchStrategy:
    """Byte strings that are the UTF-8 encoding of some text with multi-byte characters: at most (exactly) n bytes long."""

    def fit(s: str) -> bytes:
        b = s.encode("utf-8")
        while len(b) > n:
            s = s[:-1]
            b = s.encode("utf-8")
        return b + b"x" * (n - len(b)) if exact else b

    return st.one_of(st.text(alphabet="a\u00e9\u20ac\U0001f600\x00\ufeff\u65e5", max_size=max(n, 1)), st.text(max_size=max(n, 1))).map(fit)


def values(spec: typing.Any, out_of_range: bool = False, omit: bool = False) -> st.SearchStrategy:
    """Model values for `spec`.  out_of_range: numbers beyond the primitive's range; omit: struct keys may be missing."""
    k = spec[0]
    if k == "bool":
        return st.booleans()
    if k in ("uint", "byte", "utf8"):
        w = layout.width(spec)
        return _ints_around(0, (1 << w) - 1, out_of_range and k == "uint")
    if k == "int":
        w = spec[1]
        return _ints_around(-(1 << (w - 1)), (1 << (w - 1)) - 1, out_of_range)
    if k == "float":
        w = spec[1]
        if out_of_range:
            return st.one_of(_float_bits(w), _float_bits(64), st.integers(-(1 << 53), 1 << 53), st.sampled_from([1 << 1100, -(1 << 1100), 10**400]))
        # in range: values the narrow format represents exactly (round trip must be the identity), plus specials
        e_bits, m_bits = codec.FLOAT_FORMATS[w]
        top = ((1 << e_bits) - 1) << m_bits
        special_patterns = [0, 1 << (w - 1), top, top | (1 << (w - 1)), top | (1 << (m_bits - 1)), 1, (1 << m_bits) - 1, 1 << m_bits, top - 1]
        exact = st.one_of(st.integers(0, (1 << w) - 1), st.sampled_from(special_patterns)).map(lambda p: (p, codec.ieee_decode(p, w)))
        exact = exact.map(lambda t: -0.0 if (t[1] == 0 and t[0] >> (w - 1)) else t[1])
        return exact.map(
            lambda d: {"f": codec.f64_to_bits(float("nan") if d == "nan" else float("inf") if d == "+inf" else float("-inf") if d == "-inf" else float(d))}
        )
    if k == "fixed":
        if spec[1][0] == "byte":
            return st.one_of(st.binary(min_size=spec[2], max_size=spec[2]), _utf8_bytes(spec[2], True)).map(lambda b: {"b": b.hex()})
        return st.lists(values(spec[1], out_of_range, omit), min_size=spec[2], max_size=spec[2])
    if k == "var":
        cap = spec[2]
        if spec[1][0] == "byte":
            return st.one_of(st.binary(max_size=cap), _utf8_bytes(cap, False)).map(lambda b: {"b": b.hex()})
        if spec[1][0] == "utf8":
            # cut at a character boundary so that the byte length fits the capacity (multi-byte characters at the edge)
            def fit(s: str) -> str:
                b = s.encode("utf-8")
                while len(b) > cap:
                    s = s[:-1]
                    b = s.encode("utf-8")
                return s

            return st.one_of(st.text(max_size=cap), st.text(alphabet="aé€😀\x00\ufeff", max_size=cap), st.sampled_from(["\ufeff", "\ufeffa", "\ufeff\ufeff", "a\ufeff"])).map(fit)
        sizes = st.one_of(st.sampled_from([0, cap]), st.integers(0, cap))
        return sizes.flatmap(lambda n: st.lists(values(spec[1], out_of_range, omit), min_size=n, max_size=n))
    if k == "struct":
        named = [(n, t) for n, t in spec[1] if n]
        if not omit:
            return st.fixed_dictionaries({n: values(t, out_of_range, omit) for n, t in named})
        return st.fixed_dictionaries({}, optional={n: values(t, out_of_range, omit) for n, t in named})
    if k == "union":
        return st.integers(0, len(spec[1]) - 1).flatmap(
            lambda i: values(spec[1][i][1], out_of_range, omit).map(lambda v: {spec[1][i][0]: v})
        )
    if k == "delim":
        return values(spec[1], out_of_range, omit)
    raise ValueError(spec)
