"""G-EXPR: Hypothesis strategies for constant-expression trees (see vf.ref.expr)."""
from __future__ import annotations

import typing

from hypothesis import strategies as st

STYLE = st.integers(0, 2**16)

STRINGS = st.one_of(
    st.sampled_from(["", "a", "ab", "\u00e9", "e\u0301", "\u00e9x", "\u00c5", "A\u030a", "\u212b", "'", '"', "\\", "a'b\"c", "\n", "tab\t", "\u20ac", "\U0001F600", "\x00", "\x7f", " "]),
    st.text(alphabet=st.characters(blacklist_categories=("Cs",), blacklist_characters="\r\n"), max_size=5),
    st.text(alphabet="ab'\"\\ ", max_size=4),
)


def int_literal() -> st.SearchStrategy:
    v = st.one_of(st.integers(0, 10), st.integers(0, 10), st.integers(0, 300), st.sampled_from([0, 1, 2, 7, 8, 255, 256, 65535, 2**32, 2**64 - 1, 2**64, 10**20]), st.integers(0, 2**70))
    return st.tuples(v, STYLE).map(lambda t: ["int", t[0], t[1]])


def real_literal() -> st.SearchStrategy:
    digits = st.text(alphabet="0123456789", min_size=1, max_size=5)

    def mk(t: typing.Tuple[typing.Optional[str], typing.Optional[str], int, int]) -> typing.Any:
        a, b, e, s = t
        if a is None and b is None:
            a = "0"
        return ["real", a, b, e, s]

    return st.tuples(st.one_of(digits, st.none()), st.one_of(digits, st.none()), st.one_of(st.just(0), st.just(0), st.integers(-6, 6)), STYLE).map(mk)


def str_literal() -> st.SearchStrategy:
    return st.tuples(STRINGS, STYLE).map(lambda t: ["str", t[0], t[1]])


def bool_literal() -> st.SearchStrategy:
    return st.booleans().map(lambda b: ["bool", b])


def _maybe_paren(s: st.SearchStrategy) -> st.SearchStrategy:
    return st.one_of(s, s, s, s.map(lambda t: ["paren", t]))


def _bin(op: st.SearchStrategy, left: st.SearchStrategy, right: st.SearchStrategy) -> st.SearchStrategy:
    return st.tuples(op, left, right).map(lambda t: ["bin", t[0], t[1], t[2]])


def rat(depth: int) -> st.SearchStrategy:
    lit = st.one_of(int_literal(), int_literal(), real_literal())
    if depth <= 0:
        return lit
    sub = st.deferred(lambda: rat(depth - 1))
    small_exp = st.one_of(
        st.integers(0, 5).map(lambda e: ["int", e, 0]),
        st.integers(1, 4).map(lambda e: ["un", "-", ["int", e, 0]]),
        st.integers(0, 3).map(lambda e: ["paren", ["int", e, 0]]),
    )
    return _maybe_paren(
        st.one_of(
            lit,
            st.tuples(st.sampled_from(["-", "-", "+"]), sub).map(lambda t: ["un", t[0], t[1]]),
            _bin(st.sampled_from(["+", "-", "*", "/", "%", "+", "-", "*"]), sub, sub),
            _bin(st.just("**"), sub, small_exp),
            _bin(st.sampled_from(["|", "^", "&"]), st.deferred(lambda: integer(depth - 1)), st.deferred(lambda: integer(depth - 1))),
            st.tuples(st.deferred(lambda: sets("rat", depth - 1)), st.sampled_from(["min", "max", "count"])).map(lambda t: ["attr", t[0], t[1]]),
            st.deferred(lambda: sets("str", depth - 1)).map(lambda s: ["attr", s, "count"]),
        )
    )


def integer(depth: int) -> st.SearchStrategy:
    """Mostly integer-valued rationals (for bitwise operators); not guaranteed - the oracle decides."""
    lit = int_literal()
    if depth <= 0:
        return lit
    sub = st.deferred(lambda: integer(depth - 1))
    return _maybe_paren(
        st.one_of(
            lit,
            sub.map(lambda t: ["un", "-", t]),
            _bin(st.sampled_from(["+", "-", "*", "|", "^", "&", "%"]), sub, sub),
            _bin(st.just("/"), sub, int_literal()),
        )
    )


NFC_PAIRS = [("\u00e9", "e\u0301"), ("\u00c5", "A\u030a"), ("\u00c5", "\u212b"), ("\u1e69", "s\u0323\u0307"), ("\u1e69", "s\u0307\u0323"), ("\uac00", "\u1100\u1161")]


def _nfc_classes() -> typing.Dict[str, typing.List[typing.Tuple[str, str]]]:
    """Every code point that is not its own NFC / NFD form, paired with that form and stratified by the shape of the mapping
    (the classes are sampled uniformly, so the handful of mappings onto pure ASCII are not drowned by 11k Hangul syllables)."""
    import unicodedata

    out: typing.Dict[str, typing.List[typing.Tuple[str, str]]] = {"ascii-singleton": [], "singleton": [], "ascii-base": [], "composed": [], "hangul": [], "reordered": list(NFC_PAIRS[3:5])}
    for cp in list(range(0x80, 0xD800)) + list(range(0xE000, 0x30000)):
        c = chr(cp)
        n = unicodedata.normalize("NFC", c)
        d = unicodedata.normalize("NFD", c)
        if n != c:
            out["ascii-singleton" if n.isascii() else "singleton" if len(n) == 1 else "composed"].append((c, n))
        if d != c and d != n:
            if 0xAC00 <= cp <= 0xD7A3:
                out["hangul"].append((c, d))
            else:
                out["ascii-base" if d[0].isascii() else "composed"].append((c, d))
    return {k: v for k, v in out.items() if v}


_NFC_CLASSES: typing.Dict[str, typing.List[typing.Tuple[str, str]]] = {}


def nfc_pair() -> st.SearchStrategy:
    if not _NFC_CLASSES:
        _NFC_CLASSES.update(_nfc_classes())
    names = sorted(_NFC_CLASSES)
    return st.tuples(st.sampled_from(names), st.integers(0, 10**6)).map(lambda t: _NFC_CLASSES[t[0]][t[1] % len(_NFC_CLASSES[t[0]])])


def nfc_comparison() -> st.SearchStrategy:
    """Canonically equivalent strings spelled differently: == must hold (the Specification compares NFC-normalised)."""
    return st.tuples(st.one_of(st.sampled_from(NFC_PAIRS), nfc_pair(), nfc_pair()), st.sampled_from(["==", "!="]), st.booleans(), STYLE, st.sampled_from(["", "x", "'"]), st.sampled_from(["", "", "z"])).map(
        lambda t: ["bin", t[1], ["str", t[4] + (t[0][1] if t[2] else t[0][0]) + t[5], t[3]], ["str", t[4] + (t[0][0] if t[2] else t[0][1]) + t[5], t[3] + 1]]
    )


def nfc_assembled_comparison() -> st.SearchStrategy:
    """The same comparisons with one or both sides *assembled* by `+` from pieces cut at an arbitrary position - also inside a
    combining sequence / between Hangul jamo, where the pieces' own normal forms do not add up to the normal form of the whole."""

    def cut(node: typing.Any, k: int) -> typing.Any:
        text, style = node[1], node[2]
        i = k % (len(text) + 1)
        return ["bin", "+", ["str", text[:i], style], ["str", text[i:], style + 3]]

    def build(t: typing.Any) -> typing.Any:
        cmp_, ka, kb, which = t
        left, right = cmp_[2], cmp_[3]
        if which in (0, 2):
            left = cut(left, ka)
        if which in (1, 2):
            right = cut(right, kb)
        return ["bin", cmp_[1], left, right]

    return st.tuples(nfc_comparison(), st.integers(0, 12), st.integers(0, 12), st.integers(0, 2)).map(build)


def boolean(depth: int) -> st.SearchStrategy:
    lit = bool_literal()
    if depth <= 0:
        return st.one_of(lit, lit, lit, nfc_comparison(), nfc_assembled_comparison())
    sub = st.deferred(lambda: boolean(depth - 1))
    r = st.deferred(lambda: rat(depth - 1))
    s = st.deferred(lambda: string(depth - 1))
    cmp_all = st.sampled_from(["==", "!=", "<=", ">=", "<", ">"])
    return _maybe_paren(
        st.one_of(
            lit,
            sub.map(lambda t: ["un", "!", t]),
            _bin(st.sampled_from(["||", "&&"]), sub, sub),
            _bin(st.sampled_from(["==", "!="]), sub, sub),
            _bin(cmp_all, r, r),
            _bin(st.sampled_from(["==", "!="]), s, s),
            st.sampled_from(["rat", "str", "bool"]).flatmap(
                lambda k: _bin(cmp_all, st.deferred(lambda: sets(k, depth - 1)), st.deferred(lambda: sets(k, depth - 1)))
            ),
        )
    )


def string(depth: int) -> st.SearchStrategy:
    lit = str_literal()
    if depth <= 0:
        return lit
    sub = st.deferred(lambda: string(depth - 1))
    return _maybe_paren(st.one_of(lit, lit, _bin(st.just("+"), sub, sub)))


def scalar(kind: str, depth: int) -> st.SearchStrategy:
    return {"rat": rat, "bool": boolean, "str": string}[kind](depth)


def sets(kind: str, depth: int) -> st.SearchStrategy:
    el = st.deferred(lambda: scalar(kind, max(depth - 1, 0)))
    lit = st.lists(el, min_size=1, max_size=4).map(lambda xs: ["set", xs])
    if depth <= 0:
        return lit
    sub = st.deferred(lambda: sets(kind, depth - 1))
    options = [lit, lit, _bin(st.sampled_from(["|", "^", "&"]), sub, sub)]
    if kind == "rat":
        sc = st.deferred(lambda: rat(max(depth - 1, 0)))
        ops = st.sampled_from(["+", "-", "*", "/", "%"])
        options += [_bin(ops, sub, sc), _bin(ops, sc, sub), _bin(st.just("**"), sub, st.integers(0, 3).map(lambda e: ["int", e, 0]))]
    if kind == "str":
        sc = st.deferred(lambda: string(max(depth - 1, 0)))
        options += [_bin(st.just("+"), sub, sc), _bin(st.just("+"), sc, sub)]
    return _maybe_paren(st.one_of(*options))


def any_value(depth: int) -> st.SearchStrategy:
    return st.one_of(
        rat(depth),
        rat(depth),
        boolean(depth),
        string(depth),
        sets("rat", depth),
        sets("str", depth),
        sets("bool", max(depth - 1, 0)),
        st.lists(sets("rat", max(depth - 2, 0)), min_size=1, max_size=2).map(lambda xs: ["set", xs]),
    )


def _positions(t: typing.Any, path: typing.Tuple[int, ...] = ()) -> typing.List[typing.Tuple[int, ...]]:
    out = [path]
    k = t[0]
    if k == "set":
        for i, x in enumerate(t[1]):
            out += _positions(x, path + (1, i))
    elif k == "paren":
        out += _positions(t[1], path + (1,))
    elif k == "un":
        out += _positions(t[2], path + (2,))
    elif k == "bin":
        out += _positions(t[2], path + (2,)) + _positions(t[3], path + (3,))
    elif k == "attr":
        out += _positions(t[1], path + (1,))
    return out


def _replace(t: typing.Any, path: typing.Tuple[int, ...], new: typing.Any) -> typing.Any:
    if not path:
        return new
    t = list(t)
    if isinstance(t[path[0]], list) and t[0] == "set" and path[0] == 1:
        items = list(t[1])
        items[path[1]] = _replace(items[path[1]], path[2:], new)
        t[1] = items
        return t
    t[path[0]] = _replace(t[path[0]], path[1:], new)
    return t


def ill_typed(depth: int) -> st.SearchStrategy:
    """A well-typed tree with one subtree replaced by something of (probably) the wrong kind, a zero divisor, an empty or
    mixed set, an unknown attribute ..."""
    intruder = st.one_of(
        any_value(1),
        st.just(["set", []]),
        st.tuples(int_literal(), str_literal()).map(lambda t: ["set", [t[0], t[1]]]),
        st.tuples(int_literal(), bool_literal()).map(lambda t: ["set", [t[1], t[0]]]),
        rat(0).map(lambda t: ["bin", "/", t, ["int", 0, 0]]),
        rat(0).map(lambda t: ["bin", "%", t, ["bin", "-", ["int", 1, 0], ["int", 1, 0]]]),
        sets("rat", 0).map(lambda s: ["attr", s, "size"]),
        rat(0).map(lambda t: ["attr", ["paren", t], "min"]),
        st.just(["bin", "**", ["int", 0, 0], ["un", "-", ["int", 1, 0]]]),
        real_literal().map(lambda r: ["bin", "|", r, ["int", 1, 0]]),
        sets("str", 0).map(lambda s: ["attr", s, "max"]),
    )

    def splice(args: typing.Tuple[typing.Any, typing.Any, int]) -> typing.Any:
        tree, intr, idx = args
        pos = _positions(tree)
        return _replace(tree, pos[idx % len(pos)], intr)

    return st.tuples(any_value(depth), intruder, st.integers(0, 1000)).map(splice)
