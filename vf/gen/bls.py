"""G-BLS: Hypothesis strategies for bit length set operator trees (plain data, see vf.ref.bls)."""
from __future__ import annotations

from hypothesis import strategies as st

HUGE_COUNTS = [2**8 - 1, 2**8, 2**8 + 1, 2**16 - 1, 2**16, 2**16 + 1, 2**32 - 1, 2**32, 2**32 + 1, 2**63 - 1, 2**63, 2**64 - 1]


def elements() -> st.SearchStrategy:
    return st.one_of(
        st.integers(0, 16),
        st.integers(0, 128).map(lambda x: x * 8),
        st.integers(0, 1024),
        st.sampled_from([0, 1, 7, 8, 9, 15, 16, 31, 32, 33, 63, 64, 65]),
    )


def leaf(max_size: int = 4) -> st.SearchStrategy:
    return st.lists(elements(), min_size=1, max_size=max_size, unique=True).map(lambda xs: ["leaf", sorted(xs)])


def small_count() -> st.SearchStrategy:
    return st.integers(0, 6)


def huge_count() -> st.SearchStrategy:
    return st.one_of(
        st.sampled_from(HUGE_COUNTS),
        st.builds(lambda e, off: (1 << e) + off, st.integers(32, 63), st.integers(-3, 2**20)),
        # m*d + r around small divisors, so that k mod d takes every value also for huge k
        st.builds(lambda e, m, d, r: ((1 << e) + m) * d + r, st.integers(26, 57), st.integers(0, 1000), st.integers(1, 64), st.integers(0, 63)),
        st.integers(7, 200),
    )


def alignment() -> st.SearchStrategy:
    return st.one_of(
        st.sampled_from([1, 8, 8, 8, 16, 32, 64]),
        st.integers(1, 64),
        st.integers(1, 64),
        # "any alignment >= 1": powers of two of any size and their neighbours (where float arithmetic stops telling them apart), and
        # large values of no particular shape
        st.one_of(
            st.builds(lambda e, off: max(1, (1 << e) + off), st.integers(3, 66), st.integers(-3, 3)),
            st.sampled_from([2**31 - 1, 2**53 - 1, 2**53 + 1, 2**63 - 1, 2**63, 2**64 - 1, 2**64, 10**18, 3 * 2**60, 65, 100, 1000]),
        ),
    )


def trees(max_leaves: int = 8, huge: bool = False) -> st.SearchStrategy:
    count = st.one_of(small_count(), huge_count()) if huge else small_count()
    lf = leaf(3 if huge else 4)

    def extend(children: st.SearchStrategy) -> st.SearchStrategy:
        return st.one_of(
            st.lists(children, min_size=1, max_size=4).map(lambda cs: ["cat", cs]),
            st.lists(children, min_size=1, max_size=4).map(lambda cs: ["uni", cs]),
            st.tuples(children, count).map(lambda t: ["rep", t[0], t[1]]),
            st.tuples(children, count).map(lambda t: ["rng", t[0], t[1]]),
            st.tuples(children, alignment()).map(lambda t: ["pad", t[0], t[1]]),
        )

    return st.recursive(lf, extend, max_leaves=max_leaves)


def divisors() -> st.SearchStrategy:
    return st.one_of(
        st.integers(1, 64),
        st.integers(1, 64),
        st.integers(65, 128),
        st.sampled_from([1, 2, 4, 8, 16, 32, 64, 128, 256, 1024, 2**16, 2**32, 2**64]),
        st.integers(129, 2**20),
    )
