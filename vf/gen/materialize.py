"""Materialisers: type spec -> pydsdl objects through the public constructors (API) or through DSDL text (TEXT)."""
from __future__ import annotations

import json
import os
import typing
from pathlib import Path

from ..ref import layout


class ApiBuilder:
    """Builds pydsdl types from specs with the public constructors; every composite gets a synthetic name ns.T<n>."""

    def __init__(self, root: str = "ns", share: bool = False) -> None:
        self.root = root
        self.counter = 0
        self.by_spec: typing.List[typing.Tuple[typing.Any, typing.Any]] = []  # (spec, pydsdl type) in creation order
        # share: a composite that occurs several times in the spec (equal by value) is built once and the one object is used at every
        # place - the way all users of a definition share its type object after read_namespace
        self.share = share
        self.shared: typing.Dict[str, typing.Any] = {}

    def build(self, spec: typing.Any) -> typing.Any:
        import pydsdl

        P = pydsdl.PrimitiveType.CastMode
        k = spec[0]
        key = json.dumps(spec) if self.share and k in ("struct", "union", "delim") else None
        if key is not None and key in self.shared:
            return self.shared[key]
        if k == "bool":
            t = pydsdl.BooleanType()
        elif k == "uint":
            t = pydsdl.UnsignedIntegerType(spec[1], P.SATURATED if spec[2] == "sat" else P.TRUNCATED)
        elif k == "int":
            t = pydsdl.SignedIntegerType(spec[1], P.SATURATED)
        elif k == "float":
            t = pydsdl.FloatType(spec[1], P.SATURATED if spec[2] == "sat" else P.TRUNCATED)
        elif k == "byte":
            t = pydsdl.ByteType()
        elif k == "utf8":
            t = pydsdl.UTF8Type()
        elif k == "void":
            t = pydsdl.VoidType(spec[1])
        elif k == "fixed":
            t = pydsdl.FixedLengthArrayType(self.build(spec[1]), spec[2])
        elif k == "var":
            t = pydsdl.VariableLengthArrayType(self.build(spec[1]), spec[2])
        elif k in ("struct", "union"):
            attrs = []
            # constants (if any) come first: legal through the constructors, and a trap for code that indexes attributes
            for ci in range(spec[2] if len(spec) > 2 else 0):
                attrs.append(pydsdl.Constant(pydsdl.UnsignedIntegerType(8, P.SATURATED), "K%d" % ci, pydsdl.Rational(ci + 1)))
            for name, ft in spec[1]:
                if ft[0] == "void":
                    attrs.append(pydsdl.PaddingField(self.build(ft)))
                else:
                    attrs.append(pydsdl.Field(self.build(ft), name))
            self.counter += 1
            name = "%s.T%d" % (self.root, self.counter)
            cls = pydsdl.StructureType if k == "struct" else pydsdl.UnionType
            t = cls(
                name=name,
                version=pydsdl.Version(1, 0),
                attributes=attrs,
                deprecated=False,
                fixed_port_id=None,
                source_file_path=Path(self.root) / ("T%d.1.0.dsdl" % self.counter),
                has_parent_service=False,
            )
        elif k == "delim":
            inner = self.build(spec[1])
            t = pydsdl.DelimitedType(inner, layout.extent(spec))
        else:
            raise ValueError(spec)
        if key is not None:
            self.shared[key] = t
        self.by_spec.append((spec, t))
        return t


def dsdl_type_text(spec: typing.Any, refs: typing.Dict[int, str]) -> str:
    """DSDL spelling of a field type; composites must already have been emitted (id(spec) -> 'T3.1.0')."""
    k = spec[0]
    if k in ("struct", "union", "delim"):
        return refs[id(spec)]
    if k == "fixed":
        return "%s[%d]" % (dsdl_type_text(spec[1], refs), spec[2])
    if k == "var":
        return "%s[<=%d]" % (dsdl_type_text(spec[1], refs), spec[2])
    if k == "uint":
        return "%suint%d" % ("truncated " if spec[2] == "trunc" else "", spec[1])
    if k == "int":
        return "int%d" % spec[1]
    if k == "float":
        return "%sfloat%d" % ("truncated " if spec[2] == "trunc" else "", spec[1])
    if k == "void":
        return "void%d" % spec[1]
    return k


# short names that begin like a primitive type or a keyword (legal names; a grammar that tries the primitives first chokes on them)
TRICKY_NAMES = ["T%d", "boolean%d", "byteorder%d", "utf8x%d", "uint8ish%d", "int16lib%d", "float32s%d", "void1like%d", "truncatedx%d", "saturated_%d", "true_%d", "Bool%d"]


def intern_spec(spec: typing.Any, table: typing.Optional[typing.Dict[str, typing.Any]] = None) -> typing.Any:
    """The same spec with composites that are equal by value made one and the same object (the text builder writes one definition per
    composite *object*): every place then refers to the one definition and, after reading, shares its type object."""
    table = {} if table is None else table
    if not isinstance(spec, (list, tuple)):
        return spec
    k = spec[0]
    if k in ("fixed", "var"):
        return [k, intern_spec(spec[1], table), spec[2]]
    if k == "delim":
        out: typing.Any = [k, intern_spec(spec[1], table)] + list(spec[2:])
    elif k in ("struct", "union"):
        out = [k, [[n, intern_spec(t, table)] for n, t in spec[1]]] + list(spec[2:])
    else:
        return spec
    return table.setdefault(json.dumps(out), out)


class TextBuilder:
    """Emits one definition file per composite into <dir>/<root>/T<n>.1.0.dsdl (dependencies first)."""

    def __init__(self, directory: str, root: str = "ns", naming: int = 0, absolute: bool = False) -> None:
        self.directory = directory
        self.root = root
        self.naming = naming  # 0: T1, T2, ...; otherwise names cycle through TRICKY_NAMES
        self.absolute = absolute  # refer to dependencies by full name instead of relatively
        self.counter = 0
        self.refs: typing.Dict[int, str] = {}
        self.files: typing.Dict[str, str] = {}
        self.order: typing.List[typing.Tuple[typing.Any, str]] = []  # (spec, file name)

    def emit(self, spec: typing.Any) -> str:
        k = spec[0]
        if k in ("fixed", "var"):
            return self.emit(spec[1])
        if k not in ("struct", "union", "delim"):
            return ""
        if id(spec) in self.refs:
            return self.refs[id(spec)]
        body = spec[1] if k == "delim" else spec
        for _, ft in body[1]:
            self.emit(ft)
        self.counter += 1
        short = (TRICKY_NAMES[(self.naming + self.counter) % len(TRICKY_NAMES)] if self.naming else "T%d") % self.counter
        lines = []
        if body[0] == "union":
            lines.append("@union")
        for ci in range(body[2] if len(body) > 2 else 0):
            lines.append("uint8 K%d = %d" % (ci, ci + 1))
        for name, ft in body[1]:
            lines.append((dsdl_type_text(ft, self.refs) + " " + name).strip())
        if k == "delim":
            lines.append("@extent %d" % layout.extent(layout.freeze(spec)))
        else:
            lines.append("@sealed")
        fn = "%s.1.0.dsdl" % short
        self.files[fn] = "\n".join(lines) + "\n"
        self.refs[id(spec)] = ("%s.%s.1.0" % (self.root, short)) if self.absolute else ("%s.1.0" % short)
        self.order.append((spec, fn))
        return self.refs[id(spec)]

    def write(self) -> str:
        d = os.path.join(self.directory, self.root)
        os.makedirs(d, exist_ok=True)
        for fn, text in self.files.items():
            with open(os.path.join(d, fn), "w", newline="") as f:
                f.write(text)
        return d
