"""R-RULES: an independent validator of the Specification's static rules over a definition *model* (C05), and the
renderer of that model to files.

Model (plain data):
  {"root": str, "ns": [dir names], "short": str, "version": [M, m], "port": int|null, "allow_unregulated": bool,
   "statements": [statement, ...]}
statement:
  {"s": "field", "type": T, "name": str}          (name "" = bare type statement, i.e. padding when T is void)
  {"s": "const", "type": T, "name": str, "value": ["int", n] | ["frac", p, q] | ["bool", b] | ["str", s]}
  {"s": "dir", "name": str, "expr": null | ["int", n] | ["frac", p, q] | ["bool", b] | ["str", s]}
  {"s": "marker"}
T = {"base": "uint"|"int"|"float"|"bool"|"byte"|"utf8"|"void"|"dep", "cast": null|"saturated"|"truncated", "width": int,
     "dep": name, "array": null | ["fixed", n] | ["le", n] | ["lt", n]}

Dependencies available in the same namespace directory (name -> (deprecated, layout spec)) are passed in separately.
"""
from __future__ import annotations

import re
import typing
from fractions import Fraction

from . import layout

# Reserved words / patterns of the Specification (section 3.4.1), matched case-insensitively against the whole name.
RESERVED_WORDS = {
    "truncated", "saturated", "true", "false", "bool", "optional", "aligned", "const", "struct", "super", "template", "enum",
    "self", "and", "or", "not", "auto", "type", "con", "prn", "aux", "nul",
}
RESERVED_PATTERNS = [r"void\d*", r"u?int\d*", r"u?q\d+_\d+", r"float\d*", r"com\d", r"lpt\d", r"_.*_"]


def name_valid(name: str) -> bool:
    if not name:
        return False
    if not re.fullmatch(r"[A-Za-z_][A-Za-z0-9_]*", name):
        return False
    low = name.lower()
    if low in RESERVED_WORDS:
        return False
    return not any(re.fullmatch(p, low) for p in RESERVED_PATTERNS)


MAX_SUBJECT, MAX_SERVICE = 8191, 511
STANDARD_ROOTS = {"uavcan", "cyphal"}


def port_valid(port: typing.Optional[int], service: bool, root: str, allow_unregulated: bool) -> bool:
    if port is None:
        return True
    if not (0 <= port <= (MAX_SERVICE if service else MAX_SUBJECT)):
        return False
    if allow_unregulated:
        return True
    standard = root in STANDARD_ROOTS
    if service:
        lo, hi = (384, 511) if standard else (256, 383)
    else:
        lo, hi = (7168, 8191) if standard else (6144, 7167)
    return lo <= port <= hi


def version_valid(v: typing.Sequence[int]) -> bool:
    return 0 <= v[0] <= 255 and 0 <= v[1] <= 255 and (v[0] + v[1]) > 0


class Invalid(Exception):
    pass


def scalar_spec(t: typing.Any, deps: typing.Dict[str, typing.Tuple[bool, typing.Any]]) -> typing.Any:
    """Layout spec of the scalar part of T; raises Invalid when the type itself is malformed."""
    b, cast, w = t["base"], t.get("cast"), t.get("width", 0)
    if b == "uint":
        if not (1 <= w <= 64):
            raise Invalid("uint width")
        return ["uint", w, "trunc" if cast == "truncated" else "sat"]
    if b == "int":
        if not (2 <= w <= 64):
            raise Invalid("int width")
        if cast == "truncated":
            raise Invalid("truncated signed")
        return ["int", w]
    if b == "float":
        if w not in (16, 32, 64):
            raise Invalid("float width")
        return ["float", w, "trunc" if cast == "truncated" else "sat"]
    if cast is not None:
        raise Invalid("cast mode on a type that has none")
    if b == "bool":
        return ["bool"]
    if b in ("byte", "utf8"):
        return [b]
    if b == "void":
        if not (1 <= w <= 64):
            raise Invalid("void width")
        return ["void", w]
    if b == "dep":
        if t["dep"] not in deps:
            raise Invalid("undefined type")
        return deps[t["dep"]][1]
    raise Invalid("unknown base")


def full_spec(t: typing.Any, deps: typing.Dict[str, typing.Tuple[bool, typing.Any]]) -> typing.Any:
    s = scalar_spec(t, deps)
    arr = t.get("array")
    if arr is None:
        if s[0] == "utf8":
            raise Invalid("utf8 outside a variable-length array")
        if s[0] == "byte":
            raise Invalid("byte outside an array")
        return s
    kind, n = arr
    cap = n - 1 if kind == "lt" else n
    if cap < 1:
        raise Invalid("capacity")
    if s[0] == "void":
        raise Invalid("array of void")
    if s[0] == "utf8" and kind == "fixed":
        raise Invalid("utf8 in a fixed array")
    return ["fixed" if kind == "fixed" else "var", s, cap]


def const_ok(spec: typing.Any, value: typing.Any) -> bool:
    k = spec[0]
    if k == "bool":
        return value[0] == "bool"
    if k in ("uint", "int", "float"):
        if value[0] in ("int", "frac"):
            x = Fraction(value[1], value[2] if value[0] == "frac" else 1)
            if k == "float":
                m, emax = {16: (10, 15), 32: (23, 127), 64: (52, 1023)}[spec[1]]
                mx = (2 - Fraction(1, 2**m)) * Fraction(2) ** emax
                return -mx <= x <= mx
            if x.denominator != 1:
                return False
            lo, hi = (0, 2 ** spec[1] - 1) if k == "uint" else (-(2 ** (spec[1] - 1)), 2 ** (spec[1] - 1) - 1)
            return lo <= x <= hi
        if value[0] == "str":
            return k == "uint" and spec[1] == 8 and len(value[1]) == 1 and ord(value[1]) < 128
        return False
    return False


def validate(model: typing.Any, deps: typing.Dict[str, typing.Tuple[bool, typing.Any]]) -> typing.Optional[str]:
    """None when the definition obeys every static rule, else the first violated rule (a label)."""
    if not name_valid(model["short"]):
        return "short name"
    for c in [model["root"]] + list(model["ns"]):
        if not name_valid(c):
            return "namespace component"
    if len(".".join([model["root"]] + list(model["ns"]) + [model["short"]])) > 255:
        return "name length"
    if not version_valid(model["version"]):
        return "version"
    sections: typing.List[typing.Dict[str, typing.Any]] = [_new_section()]
    deprecated = False
    try:
        for st_ in model["statements"]:
            sec = sections[-1]
            s = st_["s"]
            if s == "marker":
                if len(sections) > 1:
                    raise Invalid("duplicated service marker")
                sections.append(_new_section())
                continue
            if s == "dir":
                name, expr = st_["name"], st_["expr"]
                if name == "union":
                    if expr is not None or sec["union"] or sec["attrs"]:
                        raise Invalid("union directive")
                    sec["union"] = True
                elif name == "deprecated":
                    if expr is not None or deprecated or len(sections) > 1 or sec["attrs"]:
                        raise Invalid("deprecated directive")
                    deprecated = True
                elif name == "sealed":
                    if expr is not None or sec["mode"] is not None:
                        raise Invalid("sealed directive")
                    sec["mode"] = ("sealed",)
                elif name == "extent":
                    if sec["mode"] is not None or expr is None:
                        raise Invalid("extent directive")
                    if expr[0] == "int":
                        sec["mode"] = ("extent", expr[1])
                    elif expr[0] == "frac" and Fraction(expr[1], expr[2]).denominator == 1:
                        sec["mode"] = ("extent", int(Fraction(expr[1], expr[2])))
                    else:
                        raise Invalid("extent operand")
                elif name == "assert":
                    if expr is None or expr[0] != "bool" or not expr[1]:
                        raise Invalid("assert")
                elif name == "print":
                    pass
                else:
                    raise Invalid("unknown directive")
                continue
            # attribute statements
            if sec["mode"] is not None and sec["mode"][0] == "extent":
                raise Invalid("attribute after @extent")
            t = st_["type"]
            spec = full_spec(t, deps)
            if t["base"] == "dep" and deps[t["dep"]][0] and not deprecated:
                raise Invalid("deprecated dependency")
            name = st_["name"]
            if s == "const":
                if spec[0] not in ("bool", "uint", "int", "float"):
                    raise Invalid("constant of a non-primitive type")
                if not name_valid(name):
                    raise Invalid("constant name")
                if not const_ok(spec, st_["value"]):
                    raise Invalid("constant value")
            else:
                if spec[0] == "void":
                    if name:
                        raise Invalid("named void")
                else:
                    if not name_valid(name):
                        raise Invalid("field name")
                sec["fields"].append([name, spec])
            if name:
                if name in sec["names"]:
                    raise Invalid("duplicate attribute name")
                sec["names"].add(name)
            sec["attrs"].append(name)
        for sec in sections:
            if sec["mode"] is None:
                raise Invalid("neither @sealed nor @extent")
            body = ["union" if sec["union"] else "struct", sec["fields"]]
            if sec["union"]:
                if any(ft[0] == "void" for _, ft in sec["fields"]):
                    raise Invalid("padding in a union")
                if len(sec["fields"]) < 2:
                    raise Invalid("union with fewer than two variants")
            if sec["mode"][0] == "extent":
                ext = sec["mode"][1]
                mx = layout.inner_max(layout.freeze(body)) if sec["fields"] or not sec["union"] else 0
                if ext % 8 != 0 or ext < mx or ext < 0:
                    raise Invalid("extent value")
    except Invalid as ex:
        return str(ex)
    if not port_valid(model["port"], len(sections) > 1, model["root"], model["allow_unregulated"]):
        return "port-ID"
    return None


def _new_section() -> typing.Dict[str, typing.Any]:
    return {"union": False, "mode": None, "attrs": [], "fields": [], "names": set()}


# ------------------------------------------------------------------------------------------------------------- rendering


def render_type(t: typing.Any) -> str:
    b = t["base"]
    if b in ("uint", "int", "float", "void"):
        text = "%s%d" % (b, t["width"])
    elif b == "dep":
        text = t["dep"] + ".1.0"
    else:
        text = b
    if t.get("cast"):
        text = t["cast"] + " " + text
    arr = t.get("array")
    if arr is not None:
        text += {"fixed": "[%d]", "le": "[<=%d]", "lt": "[<%d]"}[arr[0]] % arr[1]
    return text


def render_value(v: typing.Any) -> str:
    if v[0] == "int":
        return str(v[1]) if v[1] >= 0 else "-" + str(-v[1])
    if v[0] == "frac":
        return ("-" if v[1] < 0 else "") + "%d/%d" % (abs(v[1]), v[2])
    if v[0] == "bool":
        return "true" if v[1] else "false"
    if v[0] == "str":
        return "'" + v[1].replace("\\", "\\\\").replace("'", "\\'") + "'"
    raise ValueError(v)


def render(model: typing.Any) -> str:
    lines = []
    for s in model["statements"]:
        if s["s"] == "marker":
            lines.append("---")
        elif s["s"] == "dir":
            lines.append("@" + s["name"] + ("" if s["expr"] is None else " " + render_value(s["expr"])))
        elif s["s"] == "const":
            lines.append("%s %s = %s" % (render_type(s["type"]), s["name"], render_value(s["value"])))
        else:
            lines.append((render_type(s["type"]) + " " + s["name"]).strip())
    return "\n".join(lines) + "\n"


def file_name(model: typing.Any) -> str:
    v = model["version"]
    port = "" if model["port"] is None else "%d." % model["port"]
    return "%s%s.%d.%d.dsdl" % (port, model["short"], v[0], v[1])
