"""R-CODEC / R-IEEE: an independent bit-level encoder / decoder of the Specification's wire format over type specs.

Bits are a Python list of 0/1, index 0 = first bit on the wire (least significant bit of byte 0).
Model values (JSON-able):
    bool -> true/false;  integers -> int;  floats -> {"f": <64-bit pattern of a Python double>} or an int
    fixed/var arrays -> list;  utf8[<=n] -> str;  byte arrays -> {"b": hex}  (or a list of ints)
    struct -> {name: value} (keys may be missing);  union -> {name: value};  delimited -> like its inner composite
"""
from __future__ import annotations

import struct as _struct
import typing
from fractions import Fraction

from . import layout

FLOAT_FORMATS = {16: (5, 10), 32: (8, 23), 64: (11, 52)}  # width -> (exponent bits, mantissa bits)


class RefDecodeError(Exception):
    def __init__(self, category: str, detail: str = "") -> None:
        super().__init__("%s %s" % (category, detail))
        self.category = category


class BadValue(Exception):
    """The model value is not valid for the spec (harness bug or deliberately invalid input)."""


# ---------------------------------------------------------------------------------------------------------- IEEE 754


def f64_from_bits(n: int) -> float:
    return _struct.unpack("<d", _struct.pack("<Q", n))[0]


def f64_to_bits(x: float) -> int:
    return _struct.unpack("<Q", _struct.pack("<d", x))[0]


def float_max(w: int) -> Fraction:
    e, m = FLOAT_FORMATS[w]
    emax = (1 << (e - 1)) - 1
    return (2 - Fraction(1, 1 << m)) * (Fraction(2) ** emax)


def ieee_encode_fraction(x: Fraction, w: int, negative_zero: bool = False) -> int:
    """Round-to-nearest-even encoding of an exact rational into binary16/32/64; overflow gives infinity."""
    e_bits, m_bits = FLOAT_FORMATS[w]
    bias = (1 << (e_bits - 1)) - 1
    sign = 1 if (x < 0 or (x == 0 and negative_zero)) else 0
    a = -x if x < 0 else x
    if a == 0:
        return sign << (w - 1)
    # find exponent e with 2**e <= a < 2**(e+1)
    e = a.numerator.bit_length() - a.denominator.bit_length()
    if Fraction(2) ** e > a:
        e -= 1
    elif Fraction(2) ** (e + 1) <= a:
        e += 1
    emin = 1 - bias
    if e < emin:
        e = emin  # subnormal range: fixed quantum 2**(emin - m_bits)
    quantum = Fraction(2) ** (e - m_bits)
    q = a / quantum  # significand in units of the quantum: [2**m, 2**(m+1)) for normals, [0, 2**m) for subnormals
    n = q.numerator // q.denominator
    rem = q - n
    if rem > Fraction(1, 2) or (rem == Fraction(1, 2) and (n & 1)):
        n += 1
    if n >= (1 << (m_bits + 1)):  # rounding carried into the next binade
        n >>= 1
        e += 1
    if n < (1 << m_bits):  # subnormal (or zero after rounding)
        exp_field = 0
        mant = n
    else:
        exp_field = e + bias
        mant = n - (1 << m_bits)
    if exp_field >= (1 << e_bits) - 1:
        exp_field = (1 << e_bits) - 1
        mant = 0
    return (sign << (w - 1)) | (exp_field << m_bits) | mant


def ieee_decode(bits: int, w: int) -> typing.Union[Fraction, str]:
    """Returns the exact value, or 'nan' / '+inf' / '-inf'; the sign of zero is reported as Fraction(0) (see sign_bit)."""
    e_bits, m_bits = FLOAT_FORMATS[w]
    bias = (1 << (e_bits - 1)) - 1
    sign = (bits >> (w - 1)) & 1
    exp_field = (bits >> m_bits) & ((1 << e_bits) - 1)
    mant = bits & ((1 << m_bits) - 1)
    if exp_field == (1 << e_bits) - 1:
        if mant:
            return "nan"
        return "-inf" if sign else "+inf"
    if exp_field == 0:
        v = Fraction(mant) * Fraction(2) ** (1 - bias - m_bits)
    else:
        v = Fraction((1 << m_bits) + mant) * Fraction(2) ** (exp_field - bias - m_bits)
    return -v if sign else v


def classify_float_input(v: typing.Any) -> typing.Tuple[str, typing.Any, bool]:
    """('nan'|'inf'|'num', exact Fraction or sign, negative_zero)"""
    if isinstance(v, dict):
        x = f64_from_bits(v["f"])
        if x != x:
            return "nan", None, False
        if x in (float("inf"), float("-inf")):
            return "inf", -1 if x < 0 else 1, False
        neg_zero = x == 0 and (v["f"] >> 63) == 1
        return "num", Fraction(x), neg_zero
    if isinstance(v, bool):
        return "num", Fraction(int(v)), False
    if isinstance(v, int):
        return "num", Fraction(v), False
    raise BadValue("float value %r" % (v,))


def encode_float(v: typing.Any, w: int, cast: str) -> typing.Tuple[int, bool]:
    """Returns (bit pattern, is_nan)."""
    e_bits, m_bits = FLOAT_FORMATS[w]
    kind, x, neg_zero = classify_float_input(v)
    if kind == "nan":
        return ((1 << e_bits) - 1) << m_bits | (1 << (m_bits - 1)), True
    if kind == "inf":
        return ((1 if x < 0 else 0) << (w - 1)) | (((1 << e_bits) - 1) << m_bits), False
    if cast == "sat":
        mx = float_max(w)
        if x > mx:
            x = mx
        elif x < -mx:
            x = -mx
    return ieee_encode_fraction(x, w, neg_zero), False


# ------------------------------------------------------------------------------------------------------------ encoder


class Encoder:
    def __init__(self, inflate: typing.Optional[typing.Iterator[typing.Tuple[int, int]]] = None) -> None:
        # inflate: yields (extra bytes, fill byte) for every delimited object written - the payload of that object is followed
        # by that many bytes the reader's revision of the type knows nothing about (a longer, newer revision wrote them), and the
        # header counts them.  Shared with the nested encoders, consumed in writing order.
        self.inflate = inflate
        self.bits: typing.List[int] = []
        self.nan_regions: typing.List[typing.Tuple[int, int]] = []
        self.field_starts: typing.List[typing.Tuple[typing.Tuple[typing.Any, ...], int]] = []  # (path, start bit)
        self.headers: typing.List[typing.Tuple[int, int]] = []  # (bit position, value) of every delimiter header written
        self.unaligned_wide = 0  # primitives of >= 8 bits that start at a bit offset that is not a multiple of 8

    def put(self, value: int, width: int) -> None:
        for i in range(width):
            self.bits.append((value >> i) & 1)

    def align(self, a: int) -> None:
        while len(self.bits) % a:
            self.bits.append(0)

    def encode(self, spec: typing.Any, v: typing.Any, path: typing.Tuple[typing.Any, ...] = ()) -> None:
        k = spec[0]
        if k in ("uint", "int", "float", "byte", "utf8") and layout.width(spec) >= 8 and len(self.bits) % 8:
            self.unaligned_wide += 1
        if k == "bool":
            if not isinstance(v, (bool, int)):
                raise BadValue("bool %r" % (v,))
            self.put(1 if v else 0, 1)
        elif k in ("uint", "byte", "utf8"):
            w = layout.width(spec)
            cast = spec[2] if k == "uint" else "trunc"
            n = v["fint"] if isinstance(v, dict) else int(v)
            if cast == "sat":
                n = max(0, min((1 << w) - 1, n))
            else:
                n &= (1 << w) - 1
            self.put(n, w)
        elif k == "int":
            w = spec[1]
            n = max(-(1 << (w - 1)), min((1 << (w - 1)) - 1, v["fint"] if isinstance(v, dict) else int(v)))
            self.put(n & ((1 << w) - 1), w)
        elif k == "float":
            pattern, is_nan = encode_float(v, spec[1], spec[2])
            if is_nan:
                self.nan_regions.append((len(self.bits), spec[1]))
            self.put(pattern, spec[1])
        elif k == "void":
            self.put(0, spec[1])
        elif k in ("fixed", "var"):
            items = array_items(spec, v)
            if k == "fixed":
                if len(items) != spec[2]:
                    raise BadValue("fixed array length")
            else:
                if len(items) > spec[2]:
                    raise BadValue("variable array length")
                self.put(len(items), layout.prefix_width(spec[2]))
            for i, it in enumerate(items):
                self.field_starts.append((path + (i,), len(self.bits)))
                self.encode(spec[1], it, path + (i,))
        elif k == "struct":
            if not isinstance(v, dict):
                raise BadValue("struct value %r" % (v,))
            self.align(8)
            for idx, (name, t) in enumerate(spec[1]):
                self.align(layout.alignment(t))
                self.field_starts.append((path + (name or idx,), len(self.bits)))
                if t[0] == "void":
                    self.put(0, t[1])
                else:
                    self.encode(t, v[name] if name in v else default_value(t), path + (name,))
            self.align(8)
        elif k == "union":
            if not isinstance(v, dict) or len(v) != 1:
                raise BadValue("union value %r" % (v,))
            (name, val), = v.items()
            names = [n for n, _ in spec[1]]
            if name not in names:
                raise BadValue("union variant %r" % name)
            idx = names.index(name)
            self.align(8)
            self.put(idx, layout.tag_width(len(names)))
            self.field_starts.append((path + (name,), len(self.bits)))
            self.encode(spec[1][idx][1], val, path + (name,))
            self.align(8)
        elif k == "delim":
            self.align(8)
            inner = Encoder(self.inflate)
            inner.encode(spec[1], v, path)
            assert len(inner.bits) % 8 == 0
            if self.inflate is not None:
                extra, fill = next(self.inflate, (0, 0))
                for _ in range(extra):
                    inner.put(fill, 8)
            self.headers.append((len(self.bits), len(inner.bits) // 8))
            self.put(len(inner.bits) // 8, layout.DELIMITER_HEADER)
            base = len(self.bits)
            self.headers.extend((s + base, n) for s, n in inner.headers)
            self.nan_regions.extend((s + base, w) for s, w in inner.nan_regions)
            self.field_starts.extend((p, s + base) for p, s in inner.field_starts)
            self.unaligned_wide += inner.unaligned_wide
            self.bits.extend(inner.bits)
        else:
            raise ValueError(spec)


def array_items(spec: typing.Any, v: typing.Any) -> typing.List[typing.Any]:
    el = spec[1][0]
    if el == "utf8":
        if isinstance(v, str):
            return list(v.encode("utf-8"))
        if isinstance(v, dict) and "b" in v:
            return list(bytes.fromhex(v["b"]))
        raise BadValue("utf8 value %r" % (v,))
    if el == "byte":
        if isinstance(v, dict) and "b" in v:
            return list(bytes.fromhex(v["b"]))
        if isinstance(v, str):
            return list(v.encode("utf-8"))
    if isinstance(v, (list, tuple)):
        return list(v)
    raise BadValue("array value %r" % (v,))


def default_value(spec: typing.Any) -> typing.Any:
    """Zero / empty / first variant."""
    k = spec[0]
    if k == "bool":
        return False
    if k in ("uint", "int", "byte", "utf8"):
        return 0
    if k == "float":
        return {"f": 0}
    if k == "void":
        return None
    if k == "fixed":
        if spec[1][0] == "byte":
            return {"b": "00" * spec[2]}
        return [default_value(spec[1]) for _ in range(spec[2])]
    if k == "var":
        if spec[1][0] == "utf8":
            return ""
        if spec[1][0] == "byte":
            return {"b": ""}
        return []
    if k == "struct":
        return {n: default_value(t) for n, t in spec[1] if n}
    if k == "union":
        n, t = spec[1][0]
        return {n: default_value(t)}
    if k == "delim":
        return default_value(spec[1])
    raise ValueError(spec)


def encode(spec: typing.Any, v: typing.Any, with_header: bool = False, inflate: typing.Optional[typing.Iterator[typing.Tuple[int, int]]] = None) -> Encoder:
    """Top-level serialisation: a delimited type is written without its header unless asked for."""
    enc = Encoder(inflate)
    if spec[0] == "delim" and not with_header:
        enc.encode(spec[1], v)
    else:
        enc.encode(spec, v)
    assert len(enc.bits) % 8 == 0
    return enc


def bits_to_bytes(bits: typing.List[int]) -> bytes:
    out = bytearray((len(bits) + 7) // 8)
    for i, b in enumerate(bits):
        if b:
            out[i // 8] |= 1 << (i % 8)
    return bytes(out)


def bytes_to_bits(data: bytes) -> typing.List[int]:
    return [(byte >> i) & 1 for byte in data for i in range(8)]


def matches(enc: Encoder, data: bytes) -> typing.Optional[str]:
    """None when `data` is the encoding `enc` (NaN payload bits are free); else a description of the first difference."""
    got = bytes_to_bits(data)
    if len(got) != len(enc.bits):
        return "length %d bits, expected %d" % (len(got), len(enc.bits))
    free = set()
    for s, w in enc.nan_regions:
        e_bits, m_bits = FLOAT_FORMATS[w]
        pattern = sum(got[s + i] << i for i in range(w))
        exp_field = (pattern >> m_bits) & ((1 << e_bits) - 1)
        if exp_field != (1 << e_bits) - 1 or (pattern & ((1 << m_bits) - 1)) == 0:
            return "bits %d..%d are not a NaN" % (s, s + w)
        free.update(range(s, s + w))
    for i, (a, b) in enumerate(zip(enc.bits, got)):
        if a != b and i not in free:
            return "bit %d (byte %d) is %d, expected %d" % (i, i // 8, b, a)
    return None


# ------------------------------------------------------------------------------------------------------------ decoder


class Reader:
    """Reads beyond `limit` (or the end of the data) yield zeros."""

    def __init__(self, bits: typing.List[int], pos: int = 0, limit: typing.Optional[int] = None) -> None:
        self.bits = bits
        self.pos = pos
        self.end = len(bits) if limit is None else limit

    def get(self, width: int) -> int:
        v = 0
        for i in range(width):
            p = self.pos + i
            if p < self.end and p < len(self.bits):
                v |= self.bits[p] << i
        self.pos += width
        return v

    def align(self, a: int) -> None:
        while self.pos % a:
            self.pos += 1

    @property
    def remaining(self) -> int:
        return max(0, min(self.end, len(self.bits)) - self.pos)


def decode_value(r: Reader, spec: typing.Any) -> typing.Any:
    k = spec[0]
    if k == "bool":
        return bool(r.get(1))
    if k in ("uint", "byte", "utf8"):
        return r.get(layout.width(spec))
    if k == "int":
        w = spec[1]
        n = r.get(w)
        return n - (1 << w) if n >= (1 << (w - 1)) else n
    if k == "float":
        w = spec[1]
        pattern = r.get(w)
        d = ieee_decode(pattern, w)
        if d == "nan":
            return {"f": f64_to_bits(float("nan"))}
        if d == "+inf":
            return {"f": f64_to_bits(float("inf"))}
        if d == "-inf":
            return {"f": f64_to_bits(float("-inf"))}
        assert isinstance(d, Fraction)
        x = float(d)
        if d == 0 and (pattern >> (w - 1)) & 1:
            x = -0.0
        return {"f": f64_to_bits(x)}
    if k == "void":
        r.get(spec[1])
        return None
    if k in ("fixed", "var"):
        if k == "fixed":
            n = spec[2]
        else:
            n = r.get(layout.prefix_width(spec[2]))
            if n > spec[2]:
                raise RefDecodeError("array_length", "%d > %d" % (n, spec[2]))
        items = [decode_value(r, spec[1]) for _ in range(n)]
        if spec[1][0] == "utf8":
            try:
                return bytes(items).decode("utf-8")
            except UnicodeDecodeError as ex:
                raise RefDecodeError("utf8", str(ex))
        if spec[1][0] == "byte":
            return {"b": bytes(items).hex()}
        return items
    if k == "struct":
        r.align(8)
        out = {}
        for name, t in spec[1]:
            r.align(layout.alignment(t))
            v = decode_value(r, t)
            if name:
                out[name] = v
        r.align(8)
        return out
    if k == "union":
        r.align(8)
        tag = r.get(layout.tag_width(len(spec[1])))
        if tag >= len(spec[1]):
            raise RefDecodeError("union_tag", "%d >= %d" % (tag, len(spec[1])))
        name, t = spec[1][tag]
        v = decode_value(r, t)
        r.align(8)
        return {name: v}
    if k == "delim":
        r.align(8)
        nbytes = r.get(layout.DELIMITER_HEADER)
        if nbytes * 8 > r.remaining:
            raise RefDecodeError("delimiter_header", "%d bytes > %d bits remaining" % (nbytes, r.remaining))
        sub = Reader(r.bits, r.pos, r.pos + nbytes * 8)
        r.pos += nbytes * 8
        return decode_value(sub, spec[1])
    raise ValueError(spec)


def decode(spec: typing.Any, data: bytes, with_header: bool = False) -> typing.Any:
    r = Reader(bytes_to_bits(data))
    if spec[0] == "delim" and not with_header:
        return decode_value(r, spec[1])
    return decode_value(r, spec)


# ------------------------------------------------------------------------------------------- value conversion / equality


def to_python(spec: typing.Any, v: typing.Any) -> typing.Any:
    """Model value -> the Python object handed to pydsdl.serialize (explicit dict form)."""
    k = spec[0]
    if k == "float":
        return f64_from_bits(v["f"]) if isinstance(v, dict) else v
    if k in ("bool", "uint", "int", "byte", "utf8"):
        return float(v["fint"]) if isinstance(v, dict) and "fint" in v else v
    if k in ("fixed", "var"):
        if isinstance(v, str):
            return v
        if isinstance(v, dict) and "b" in v:
            return bytes.fromhex(v["b"])
        return [to_python(spec[1], x) for x in v]
    if k == "delim":
        return to_python(spec[1], v)
    if k in ("struct", "union"):
        types = {n: t for n, t in spec[1] if n}
        return {n: to_python(types[n], x) if n in types else x for n, x in v.items()}
    return v


def from_python(spec: typing.Any, v: typing.Any) -> typing.Any:
    """Result of pydsdl.deserialize -> model value (for comparison and reports)."""
    k = spec[0]
    if k == "float":
        if not isinstance(v, float):
            return {"not-a-float": repr(v)}
        return {"f": f64_to_bits(v)}
    if k in ("fixed", "var"):
        if isinstance(v, (bytes, bytearray)):
            return {"b": bytes(v).hex()}
        if isinstance(v, str):
            return v
        if isinstance(v, list):
            return [from_python(spec[1], x) for x in v]
        return {"not-an-array": repr(v)}
    if k == "delim":
        return from_python(spec[1], v)
    if k in ("struct", "union"):
        if not isinstance(v, dict):
            return {"not-a-dict": repr(v)}
        types = {n: t for n, t in spec[1] if n}
        return {n: from_python(types[n], x) if n in types else {"unknown-key": repr(x)} for n, x in v.items()}
    if k == "bool":
        return v if isinstance(v, bool) else {"not-a-bool": repr(v)}
    if k in ("uint", "int", "byte", "utf8"):
        return v if isinstance(v, int) and not isinstance(v, bool) else {"not-an-int": repr(v)}
    return v


def same(spec: typing.Any, a: typing.Any, b: typing.Any) -> bool:
    """Equality of two model values *after decoding* (both fully populated); NaN equals NaN, -0.0 differs from +0.0."""
    k = spec[0]
    if k == "float":
        if not (isinstance(a, dict) and isinstance(b, dict) and "f" in a and "f" in b):
            return False
        xa, xb = f64_from_bits(a["f"]), f64_from_bits(b["f"])
        if xa != xa or xb != xb:
            return xa != xa and xb != xb
        return a["f"] == b["f"]
    if k in ("fixed", "var"):
        if isinstance(a, list) and isinstance(b, list):
            return len(a) == len(b) and all(same(spec[1], x, y) for x, y in zip(a, b))
        return type(a) is type(b) and a == b
    if k == "delim":
        return same(spec[1], a, b)
    if k in ("struct", "union"):
        if not (isinstance(a, dict) and isinstance(b, dict)) or list(sorted(a)) != list(sorted(b)):
            return False
        types = {n: t for n, t in spec[1] if n}
        return all(n in types and same(types[n], a[n], b[n]) for n in a)
    return type(a) is type(b) and a == b


def normalise(spec: typing.Any, v: typing.Any) -> typing.Any:
    """What a round trip is *documented* to return for input v: the decoded form of the reference encoding."""
    enc = encode(spec, v, with_header=False)
    return decode(spec, bits_to_bytes(enc.bits), with_header=False)


def self_test(n: int = 4000) -> int:
    """Cross-check R-IEEE against the platform's struct module on a deterministic pattern sequence (neither is trusted blindly)."""
    x = 0x9E3779B97F4A7C15
    checked = 0
    for i in range(n):
        x = (x * 6364136223846793005 + 1442695040888963407) & ((1 << 64) - 1)
        for w, fmt, ifmt in ((16, "<e", "<H"), (32, "<f", "<I"), (64, "<d", "<Q")):
            pattern = (x >> (64 - w)) if i % 3 else (x & ((1 << w) - 1))
            d = ieee_decode(pattern, w)
            native = _struct.unpack(fmt, _struct.pack(ifmt, pattern))[0]
            if d == "nan":
                assert native != native
                continue
            if d in ("+inf", "-inf"):
                assert native == float(d)
                continue
            assert isinstance(d, Fraction) and Fraction(native) == d, (w, pattern)
            back = ieee_encode_fraction(d, w, negative_zero=(d == 0 and pattern >> (w - 1) == 1))
            assert back == pattern, (w, hex(pattern), hex(back))
            checked += 1
        # rounding: a double squeezed into binary32 / binary16
        for dbl in (
            f64_from_bits(x),
            f64_from_bits((x & ~(0x7FF << 52)) | ((1023 - 30 + (x >> 7) % 50) << 52)),  # binary16 range incl. subnormals
            f64_from_bits((x & ~(0x7FF << 52)) | ((1023 - 155 + (x >> 9) % 290) << 52)),  # binary32 range incl. subnormals
            f64_from_bits((x & ~(0xFFFFFFFFF)) | ((1023 + (x >> 11) % 20) << 52) & ((1 << 63) - 1) | (x & (0x7FF << 52) and 0)),
        ):
            if dbl != dbl or dbl in (float("inf"), float("-inf")):
                continue
            for w, fmt, ifmt in ((16, "<e", "<H"), (32, "<f", "<I")):
                mine = ieee_encode_fraction(Fraction(dbl), w, negative_zero=(dbl == 0 and x >> 63 == 1))
                try:
                    theirs = _struct.unpack(ifmt, _struct.pack(fmt, dbl))[0]
                except OverflowError:
                    theirs = _struct.unpack(ifmt, _struct.pack(fmt, float("inf") if dbl > 0 else float("-inf")))[0]
                assert mine == theirs, (w, dbl, hex(mine), hex(theirs))
                checked += 1
    return checked
