"""R-EXPR: independent evaluator of DSDL constant expressions over trees, an independent statement of the grammar's
precedence table (used by the renderer), and a parser for the text delivered by @print.

Trees (plain data):
  ["int", value>=0, style]        ["real", int_digits, frac_digits, exponent, style]     ["str", text, style]
  ["bool", b]                     ["set", [trees]]
  ["un", "+"|"-"|"!", tree]       ["bin", op, left, right]       ["attr", tree, name]     ["paren", tree]

Values: ("rat", Fraction) | ("bool", bool) | ("str", str) | ("set", frozenset of values)
"""
from __future__ import annotations

import typing
import unicodedata
from fractions import Fraction

MAX_BITS = 4000
MAX_EXPONENT = 16


class Undefined(Exception):
    """The Specification leaves the operation undefined for these operands -> the definition must be rejected."""


class OutOfScope(Exception):
    """Outside what C04 quantifies over (non-integer exponents, huge results)."""


Value = typing.Tuple[str, typing.Any]


def _check_size(f: Fraction) -> Fraction:
    if f.numerator.bit_length() > MAX_BITS or f.denominator.bit_length() > MAX_BITS:
        raise OutOfScope("too big")
    return f


def literal_value(t: typing.Any) -> Value:
    k = t[0]
    if k == "int":
        return ("rat", Fraction(t[1]))
    if k == "real":
        int_digits, frac_digits, exponent = t[1], t[2], t[3]
        mant = int((int_digits or "0") + (frac_digits or "")) if (int_digits or frac_digits) else 0
        v = Fraction(mant, 10 ** len(frac_digits or ""))
        v = v * Fraction(10) ** exponent
        return ("rat", _check_size(v))
    if k == "str":
        return ("str", t[1])
    if k == "bool":
        return ("bool", bool(t[1]))
    raise ValueError(t)


def _arith(op: str, a: Fraction, b: Fraction) -> Fraction:
    if op == "+":
        return a + b
    if op == "-":
        return a - b
    if op == "*":
        return a * b
    if op == "/":
        if b == 0:
            raise Undefined("division by zero")
        return a / b
    if op == "%":
        if b == 0:
            raise Undefined("modulo by zero")
        # floored modulo: the result takes the sign of the divisor
        q = a / b
        fl = q.numerator // q.denominator
        return a - b * fl
    if op == "**":
        if b.denominator != 1:
            raise OutOfScope("non-integer exponent")
        e = b.numerator
        if abs(e) > MAX_EXPONENT:
            raise OutOfScope("exponent magnitude")
        if e < 0 and a == 0:
            raise Undefined("zero to a negative power")
        if e >= 0:
            return Fraction(a.numerator**e, a.denominator**e)
        return Fraction(a.denominator ** (-e), a.numerator ** (-e))
    raise ValueError(op)


ARITH = ("+", "-", "*", "/", "%", "**")
BITWISE = ("|", "^", "&")
COMPARE = ("==", "!=", "<=", ">=", "<", ">")
LOGICAL = ("||", "&&")


def _element_kind(s: typing.FrozenSet[Value]) -> str:
    return next(iter(s))[0]


def make_set(elements: typing.Iterable[Value]) -> Value:
    els = list(elements)
    if not els:
        raise Undefined("empty set")
    if len({e[0] for e in els}) != 1:
        raise Undefined("heterogeneous set")
    return ("set", frozenset(els))


def binary(op: str, a: Value, b: Value) -> Value:
    ka, kb = a[0], b[0]
    if op in LOGICAL:
        if ka == kb == "bool":
            return ("bool", (a[1] or b[1]) if op == "||" else (a[1] and b[1]))
        raise Undefined("logical operands")
    if op in ("==", "!="):
        if ka != kb:
            raise Undefined("comparison of different kinds")
        if ka == "str":
            eq = unicodedata.normalize("NFC", a[1]) == unicodedata.normalize("NFC", b[1])
        elif ka == "set":
            if _element_kind(a[1]) != _element_kind(b[1]):
                raise Undefined("sets of different element types")
            eq = a[1] == b[1]
        else:
            eq = a[1] == b[1]
        return ("bool", eq if op == "==" else not eq)
    if op in ("<", "<=", ">", ">="):
        if ka == kb == "rat":
            x, y = a[1], b[1]
            return ("bool", {"<": x < y, "<=": x <= y, ">": x > y, ">=": x >= y}[op])
        if ka == kb == "set":
            if _element_kind(a[1]) != _element_kind(b[1]):
                raise Undefined("sets of different element types")
            x, y = a[1], b[1]
            return ("bool", {"<": x < y, "<=": x <= y, ">": x > y, ">=": x >= y}[op])
        raise Undefined("ordering operands")
    if op in BITWISE:
        if ka == kb == "rat":
            if a[1].denominator != 1 or b[1].denominator != 1:
                raise Undefined("bitwise on non-integers")
            x, y = a[1].numerator, b[1].numerator
            return ("rat", Fraction({"|": x | y, "^": x ^ y, "&": x & y}[op]))
        if ka == kb == "set":
            if _element_kind(a[1]) != _element_kind(b[1]):
                raise Undefined("sets of different element types")
            r = {"|": a[1] | b[1], "^": a[1] ^ b[1], "&": a[1] & b[1]}[op]
            if not r:
                raise Undefined("empty result set")
            return ("set", frozenset(r))
        raise Undefined("bitwise operands")
    if op in ARITH:
        if ka == kb == "rat":
            return ("rat", _check_size(_arith(op, a[1], b[1])))
        if op == "+" and ka == kb == "str":
            return ("str", a[1] + b[1])
        if ka == "set" and kb != "set":
            return make_set(binary(op, x, b) for x in a[1])
        if kb == "set" and ka != "set":
            return make_set(binary(op, a, x) for x in b[1])
        raise Undefined("arithmetic operands")
    raise ValueError(op)


def evaluate(t: typing.Any) -> Value:
    k = t[0]
    if k in ("int", "real", "str", "bool"):
        return literal_value(t)
    if k == "paren":
        return evaluate(t[1])
    if k == "set":
        return make_set([evaluate(x) for x in t[1]])
    if k == "un":
        v = evaluate(t[2])
        if t[1] == "!":
            if v[0] != "bool":
                raise Undefined("! on non-boolean")
            return ("bool", not v[1])
        if v[0] != "rat":
            raise Undefined("unary sign on non-rational")
        return ("rat", v[1] if t[1] == "+" else -v[1])
    if k == "bin":
        # both operands are evaluated before the operator is applied (an undefined operand makes the whole undefined)
        a = evaluate(t[2])
        b = evaluate(t[3])
        return binary(t[1], a, b)
    if k == "attr":
        v = evaluate(t[1])
        name = t[2]
        if v[0] != "set":
            raise Undefined("attribute of a non-set")
        if name == "count":
            return ("rat", Fraction(len(v[1])))
        if name in ("min", "max"):
            if _element_kind(v[1]) != "rat":
                if len(v[1]) == 1:
                    raise OutOfScope("min/max of a one-element non-rational set")
                if _element_kind(v[1]) == "set":
                    raise OutOfScope("min/max over a set of sets (partial order)")
                raise Undefined("min/max of unordered elements")
            vals = [x[1] for x in v[1]]
            return ("rat", min(vals) if name == "min" else max(vals))
        raise Undefined("unknown attribute")
    raise ValueError(t)


# ------------------------------------------------------------------------------------------------------------- renderer
# Independent statement of the grammar's binding levels, low to high:
#   1 || &&   2 !   3 == != <= >= < >   4 | ^ &   5 + -   6 * / %   7 unary + -   8 **   9 .attr   10 atoms
LEVEL = {"||": 1, "&&": 1, "==": 3, "!=": 3, "<=": 3, ">=": 3, "<": 3, ">": 3, "|": 4, "^": 4, "&": 4, "+": 5, "-": 5, "*": 6, "/": 6, "%": 6, "**": 8}


def level(t: typing.Any) -> int:
    k = t[0]
    if k == "bin":
        return LEVEL[t[1]]
    if k == "un":
        return 2 if t[1] == "!" else 7
    if k == "attr":
        return 9
    return 10


class Spacer:
    def __init__(self, seed: int) -> None:
        self.s = seed & 0xFFFFFFFF

    def next(self, n: int) -> int:
        if self.s == 0:
            return 0
        self.s = (self.s * 1664525 + 1013904223) & 0xFFFFFFFF
        return (self.s >> 8) % n

    def blank(self) -> str:
        return ["", " ", " ", "  ", "\t"][self.next(5)] if self.s else " "


def render_int(value: int, style: int) -> str:
    s = style % 8
    if value == 0:
        return ["0", "00", "0_0", "0x0", "0b0", "0o0", "0X00", "0"][s]
    if s in (0, 7):
        text = str(value)
    elif s == 1:
        text = hex(value)
    elif s == 2:
        text = "0X%X" % value
    elif s == 3:
        text = bin(value)
    elif s == 4:
        text = oct(value)
    elif s == 5:
        text = "0B" + bin(value)[2:]
    else:
        text = "0O" + oct(value)[2:]
    if style % 3 == 1 and len(text) > 4:
        # digit separators: an underscore may precede any digit after the first
        head = 1 if text[0] != "0" or len(text) < 3 or text[1] not in "xXbBoO" else 3
        body = text[head:]
        body = "_".join(body[i : i + 3] for i in range(0, len(body), 3))
        text = text[:head] + ("_" if head == 3 and style % 2 else "") + body
    return text


def render_real(t: typing.Any) -> str:
    int_digits, frac_digits, exponent, style = t[1], t[2], t[3], t[4]

    def sep(d: str) -> str:
        return "_".join(d[i : i + 2] for i in range(0, len(d), 2)) if (style % 4 == 1 and len(d) > 2) else d

    if frac_digits is None:
        mant = sep(int_digits) + ("." if exponent == 0 or style % 2 else "")
    elif int_digits is None or int_digits == "":
        mant = "." + sep(frac_digits)
    else:
        mant = sep(int_digits) + "." + sep(frac_digits)
    if exponent == 0 and "." in mant and style % 5:
        return mant
    e = "e" if style % 2 else "E"
    sign = "-" if exponent < 0 else ("+" if style % 3 == 0 else "")
    return mant + e + sign + str(abs(exponent))


def render_str(text: str, style: int) -> str:
    q = "'" if style % 2 else '"'
    out = []
    for i, ch in enumerate(text):
        cp = ord(ch)
        if ch == "\\":
            out.append("\\\\")
        elif ch == q:
            out.append("\\" + q)
        elif ch in "'\"" and (style + i) % 3 == 0:
            out.append("\\" + ch)
        elif ch == "\n":
            out.append("\\n" if (style + i) % 2 else "\\u000A")
        elif ch == "\r":
            out.append("\\r")
        elif ch == "\t":
            out.append("\\t" if (style + i) % 2 else "\t")
        elif cp < 32 or cp == 127 or (0x80 <= cp < 0xA0) or cp in (0x2028, 0x2029, 0x85):
            out.append("\\u%04x" % cp)
        elif (style + i) % 5 == 0:
            out.append(("\\u%04X" % cp) if cp < 0x10000 else ("\\U%08x" % cp))
        else:
            out.append(ch)
    return q + "".join(out) + q


def render(t: typing.Any, sp: Spacer, min_level: int = 1) -> str:
    k = t[0]
    lv = level(t)
    if k == "int":
        text = render_int(t[1], t[2])
    elif k == "real":
        text = render_real(t)
    elif k == "str":
        text = render_str(t[1], t[2])
    elif k == "bool":
        text = "true" if t[1] else "false"
    elif k == "set":
        b = sp.blank
        text = "{" + b() + ("," + b()).join(render(x, sp, 1) + b() for x in t[1]) + "}"
        if not t[1]:
            text = "{" + b() + "}"
    elif k == "paren":
        text = "(" + sp.blank() + render(t[1], sp, 1) + sp.blank() + ")"
    elif k == "un":
        if t[1] == "!":
            text = "!" + sp.blank() + render(t[2], sp, 2)
        else:
            text = t[1] + sp.blank() + render(t[2], sp, 8)
    elif k == "bin":
        op = t[1]
        if op == "**":
            text = render(t[2], sp, 9) + sp.blank() + op + sp.blank() + render(t[3], sp, 7)
        else:
            left = render(t[2], sp, lv)
            right = render(t[3], sp, lv + 1)
            b1, b2 = sp.blank(), sp.blank()
            # keep tokens apart where gluing them would form another token ("< =" vs "<=", "& &", "- -" is fine)
            if (op in ("<", ">", "!", "=") and right.startswith("=")) or (op in ("&", "|") and right[:1] == op):
                b2 = b2 or " "
            text = left + b1 + op + b2 + right
    elif k == "attr":
        text = render(t[1], sp, 9) + sp.blank() + "." + sp.blank() + t[2]
    else:
        raise ValueError(t)
    if lv < min_level:
        return "(" + text + ")"
    return text


def count_nodes(t: typing.Any) -> typing.Tuple[int, typing.Set[int]]:
    """(number of operators, set of their precedence levels) outside redundant parentheses."""
    k = t[0]
    if k in ("int", "real", "str", "bool"):
        return 0, set()
    if k == "set":
        n, ls = 0, set()
        for x in t[1]:
            a, b = count_nodes(x)
            n += a
            ls |= b
        return n, ls
    if k == "paren":
        return count_nodes(t[1])
    if k == "un":
        a, b = count_nodes(t[2])
        return a + 1, b | {level(t)}
    if k == "bin":
        a, b = count_nodes(t[2])
        c, d = count_nodes(t[3])
        return a + c + 1, b | d | {level(t)}
    if k == "attr":
        a, b = count_nodes(t[1])
        return a + 1, b | {9}
    raise ValueError(t)


def has_paren(t: typing.Any) -> bool:
    k = t[0]
    if k == "paren":
        return True
    if k == "set":
        return any(has_paren(x) for x in t[1])
    if k == "un":
        return has_paren(t[2])
    if k == "bin":
        return has_paren(t[2]) or has_paren(t[3])
    if k == "attr":
        return has_paren(t[1])
    return False


def set_on_right(t: typing.Any) -> bool:
    """A set-vs-scalar operator whose set operand is on the right-hand side."""
    k = t[0]
    if k == "bin":
        if t[1] in ARITH:
            try:
                a, b = evaluate(t[2]), evaluate(t[3])
                if b[0] == "set" and a[0] != "set":
                    return True
            except (Undefined, OutOfScope):
                pass
        return set_on_right(t[2]) or set_on_right(t[3])
    if k in ("paren",):
        return set_on_right(t[1])
    if k == "un":
        return set_on_right(t[2])
    if k == "attr":
        return set_on_right(t[1])
    if k == "set":
        return any(set_on_right(x) for x in t[1])
    return False


# ----------------------------------------------------------------------------------------------- parsing @print output


class PrintParseError(Exception):
    pass


def parse_printed(text: str) -> Value:
    """Inverse of the documented textual form: rationals 'p' or 'p/q', true/false, Python-repr strings, '{a, b}' sets."""
    import ast

    pos = 0

    def parse() -> Value:
        nonlocal pos
        if pos >= len(text):
            raise PrintParseError("unexpected end")
        ch = text[pos]
        if ch == "{":
            pos += 1
            els = []
            while True:
                els.append(parse())
                if text.startswith(", ", pos):
                    pos += 2
                    continue
                if text.startswith("}", pos):
                    pos += 1
                    break
                raise PrintParseError("bad set syntax at %d in %r" % (pos, text))
            return ("set", frozenset(els))
        if ch in "'\"":
            end = pos + 1
            while end < len(text):
                if text[end] == "\\":
                    end += 2
                    continue
                if text[end] == ch:
                    break
                end += 1
            if end >= len(text):
                raise PrintParseError("unterminated string in %r" % text)
            lit = text[pos : end + 1]
            pos = end + 1
            try:
                return ("str", ast.literal_eval(lit))
            except (ValueError, SyntaxError) as ex:
                raise PrintParseError("bad string literal %r: %s" % (lit, ex))
        if text.startswith("true", pos):
            pos += 4
            return ("bool", True)
        if text.startswith("false", pos):
            pos += 5
            return ("bool", False)
        end = pos
        while end < len(text) and (text[end].isdigit() or text[end] in "-/"):
            end += 1
        tok = text[pos:end]
        pos = end
        try:
            return ("rat", Fraction(tok))
        except (ValueError, ZeroDivisionError):
            raise PrintParseError("bad number %r in %r" % (tok, text))

    v = parse()
    if pos != len(text):
        raise PrintParseError("trailing text %r" % text[pos:])
    return v


def describe(v: Value) -> typing.Any:
    if v[0] == "rat":
        return str(v[1])
    if v[0] == "set":
        return sorted((describe(x) for x in v[1]), key=repr)
    return v[1]
