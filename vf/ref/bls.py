"""Reference models of bit length set expressions (C01, also used by C02/C08/C18).

A *tree* is plain data:
    ["leaf", [ints]]            finite non-empty set of non-negative integers
    ["cat", [trees]]            element-wise sums over the cartesian product
    ["uni", [trees]]            union
    ["rep", tree, k]            k-fold multiset sum
    ["rng", tree, k]            union of j-fold multiset sums, j = 0..k
    ["pad", tree, a]            every element rounded up to a multiple of a

Two independent models:
  explicit(tree)        the set itself, by the definitions above (bails out with TooBig beyond a size limit)
  residues(tree, m)     { x mod m } computed structurally in Z_m, repetition by *sumset exponentiation by squaring*;
                        never uses the k -> min(k, d + k mod d) shortcut of the implementation under test.
"""
from __future__ import annotations

import functools
import math
import typing


def freeze(tree: typing.Any) -> typing.Any:
    """JSON lists -> nested tuples (hashable, so that the models can be memoised per case)."""
    if isinstance(tree, (list, tuple)):
        return tuple(freeze(x) for x in tree)
    return tree


class TooBig(Exception):
    pass


EXPLICIT_LIMIT = 5000


def _sumset(a: typing.AbstractSet[int], b: typing.AbstractSet[int], limit: int) -> typing.Set[int]:
    if len(a) * len(b) > 400 * limit:
        raise TooBig()
    out = {x + y for x in a for y in b}
    if len(out) > limit:
        raise TooBig()
    return out


@functools.lru_cache(maxsize=50000)
def explicit(tree: typing.Any, limit: int = EXPLICIT_LIMIT) -> typing.Set[int]:
    kind = tree[0]
    if kind == "leaf":
        return set(tree[1])
    if kind == "cat":
        acc = {0}
        for ch in tree[1]:
            acc = _sumset(acc, explicit(ch, limit), limit)
        return acc
    if kind == "uni":
        out: typing.Set[int] = set()
        for ch in tree[1]:
            out |= explicit(ch, limit)
        if len(out) > limit:
            raise TooBig()
        return out
    if kind in ("rep", "rng"):
        base = explicit(tree[1], limit)
        k = tree[2]
        if len(base) == 1:
            (a,) = base
            if kind == "rep":
                return {a * k}
            if a == 0:
                return {0}
            if k + 1 > limit:
                raise TooBig()
            return {a * j for j in range(k + 1)}
        if k * (len(base) - 1) + 1 > limit:
            raise TooBig()  # in the integers the k-fold sumset of n >= 2 values has at least k(n-1)+1 elements
        acc = {0}
        out = {0}
        for _ in range(k):
            acc = _sumset(acc, base, limit)
            if kind == "rng":
                out |= acc
                if len(out) > limit:
                    raise TooBig()
        return acc if kind == "rep" else out
    if kind == "pad":
        a = tree[2]
        return {-(-x // a) * a for x in explicit(tree[1], limit)}
    raise ValueError(kind)


# Residue sets in Z_m are kept as bit masks (bit r set <=> residue r present): a sumset is an OR of rotations.


def _bits(mask: int) -> typing.List[int]:
    s = bin(mask)[:1:-1]  # LSB first
    out = []
    i = s.find("1")
    while i >= 0:
        out.append(i)
        i = s.find("1", i + 1)
    return out


def _sumset_mask(a: int, b: int, m: int) -> int:
    if a.bit_count() < b.bit_count():
        a, b = b, a
    nb = b.bit_count()
    if nb * max(1, m // 64) > (1 << 24):
        raise TooBig()
    full = (1 << m) - 1
    out = 0
    for s in _bits(b):
        out |= ((a << s) | (a >> (m - s))) & full
    return out


def _power_mask(s: int, k: int, m: int) -> int:
    """k-fold sumset of s in Z_m by binary exponentiation (sumsets are associative and commutative)."""
    result = 1  # {0}
    base = s
    while k > 0:
        if k & 1:
            result = _sumset_mask(result, base, m)
        k >>= 1
        if k:
            base = _sumset_mask(base, base, m)
    return result


def _mask_of(values: typing.Iterable[int]) -> int:
    out = 0
    for v in values:
        out |= 1 << v
    return out


@functools.lru_cache(maxsize=400000)
def _res_mask(tree: typing.Any, m: int) -> int:
    if m > (1 << 22):
        raise TooBig()
    kind = tree[0]
    if kind == "leaf":
        return _mask_of(x % m for x in tree[1])
    if kind == "cat":
        acc = 1
        for ch in tree[1]:
            acc = _sumset_mask(acc, _res_mask(ch, m), m)
        return acc
    if kind == "uni":
        out = 0
        for ch in tree[1]:
            out |= _res_mask(ch, m)
        return out
    if kind == "rep":
        return _power_mask(_res_mask(tree[1], m), tree[2], m)
    if kind == "rng":
        # union over j<=k of the j-fold sumset of S  ==  k-fold sumset of S u {0}
        return _power_mask(_res_mask(tree[1], m) | 1, tree[2], m)
    if kind == "pad":
        a = tree[2]
        big = m * a // math.gcd(m, a)
        # pad(x) mod big depends only on x mod big because a divides big
        child = _res_mask(tree[1], big)
        if child.bit_count() > 200000:
            raise TooBig()
        return _mask_of(((-(-x // a)) * a) % m for x in _bits(child))
    raise ValueError(kind)


def residue_count(tree: typing.Any, m: int) -> int:
    return _res_mask(tree, m).bit_count()


def residues(tree: typing.Any, m: int, limit: int = 20000) -> typing.FrozenSet[int]:
    mask = _res_mask(tree, m)
    if mask.bit_count() > limit:
        raise TooBig()
    return frozenset(_bits(mask))


def vmin(tree: typing.Any) -> int:
    kind = tree[0]
    if kind == "leaf":
        return min(tree[1])
    if kind == "cat":
        return sum(vmin(c) for c in tree[1])
    if kind == "uni":
        return min(vmin(c) for c in tree[1])
    if kind == "rep":
        return vmin(tree[1]) * tree[2]
    if kind == "rng":
        return 0
    if kind == "pad":
        return -(-vmin(tree[1]) // tree[2]) * tree[2]
    raise ValueError(kind)


def vmax(tree: typing.Any) -> int:
    kind = tree[0]
    if kind == "leaf":
        return max(tree[1])
    if kind == "cat":
        return sum(vmax(c) for c in tree[1])
    if kind == "uni":
        return max(vmax(c) for c in tree[1])
    if kind in ("rep", "rng"):
        return vmax(tree[1]) * tree[2]
    if kind == "pad":
        return -(-vmax(tree[1]) // tree[2]) * tree[2]
    raise ValueError(kind)


def depth(tree: typing.Any) -> int:
    kind = tree[0]
    if kind == "leaf":
        return 0
    if kind in ("cat", "uni"):
        return 1 + max(depth(c) for c in tree[1])
    return 1 + depth(tree[1])


def kinds(tree: typing.Any, acc: typing.Optional[set] = None) -> set:
    acc = set() if acc is None else acc
    kind = tree[0]
    if kind == "leaf":
        return acc
    acc.add(kind)
    if kind in ("cat", "uni"):
        for c in tree[1]:
            kinds(c, acc)
    else:
        kinds(tree[1], acc)
    return acc


def max_count(tree: typing.Any) -> int:
    kind = tree[0]
    if kind == "leaf":
        return 0
    if kind in ("cat", "uni"):
        return max(max_count(c) for c in tree[1])
    if kind in ("rep", "rng"):
        return max(tree[2], max_count(tree[1]))
    return max_count(tree[1])


def render(tree: typing.Any) -> str:
    kind = tree[0]
    if kind == "leaf":
        return "{%s}" % ",".join(map(str, sorted(tree[1])))
    if kind == "cat":
        return "cat(%s)" % ",".join(render(c) for c in tree[1])
    if kind == "uni":
        return "uni(%s)" % ",".join(render(c) for c in tree[1])
    if kind == "rep":
        return "rep(%s,%d)" % (render(tree[1]), tree[2])
    if kind == "rng":
        return "rng(%s,<=%d)" % (render(tree[1]), tree[2])
    return "pad(%s,%d)" % (render(tree[1]), tree[2])


# ---------------------------------------------------------------------------------------------------------------
# Cost of the *implementation's* algorithm (tuples it would enumerate), used only to decide which queries are tractable.
# It mirrors the documented algorithm (product of residue sets; multicombinations of residues with k' < 2d), not its code.


def _multicomb(r: int, k: int) -> int:
    return math.comb(r + k - 1, k) if r > 0 else (1 if k == 0 else 0)


@functools.lru_cache(maxsize=400000)
def modulo_cost(tree: typing.Any, d: int, cap: int = 10**7) -> int:
    """Estimated number of element touches of `bls % d`.  Raises TooBig when residues cannot be modelled."""
    kind = tree[0]
    if kind == "leaf":
        return len(tree[1])
    if kind == "cat":
        c = sum(modulo_cost(ch, d, cap) for ch in tree[1])
        p = 1
        for ch in tree[1]:
            p *= residue_count(ch, d)
        return c + p * len(tree[1])
    if kind == "uni":
        return sum(modulo_cost(ch, d, cap) for ch in tree[1])
    if kind in ("rep", "rng"):
        k = tree[2]
        kk = min(k, d + k % d)
        r = residue_count(tree[1], d)
        c = modulo_cost(tree[1], d, cap)
        if kind == "rep":
            n = _multicomb(r, kk) * max(kk, 1)
        else:
            n = math.comb(r + kk, kk) * max(kk, 1)
        if n > cap:
            return cap + 1
        return c + n
    if kind == "pad":
        a = tree[2]
        return modulo_cost(tree[1], d * a // math.gcd(d, a), cap) + residue_count(tree[1], d * a // math.gcd(d, a))
    raise ValueError(kind)


def expansion_cost(tree: typing.Any, cap: int = 10**7) -> int:
    """Estimated element touches of numerical expansion (without the validation pass)."""
    kind = tree[0]
    if kind == "leaf":
        return len(tree[1])
    if kind == "cat":
        c = sum(expansion_cost(ch, cap) for ch in tree[1])
        p = 1
        for ch in tree[1]:
            p *= len(explicit(ch))
        return c + p * len(tree[1])
    if kind == "uni":
        return sum(expansion_cost(ch, cap) for ch in tree[1]) + sum(len(explicit(ch)) for ch in tree[1])
    if kind in ("rep", "rng"):
        k = tree[2]
        n = len(explicit(tree[1]))
        if k > 10000:
            return cap + 1
        if kind == "rep":
            t = _multicomb(n, k) * max(k, 1)
        else:
            t = math.comb(n + k, k) * max(k, 1)
        if t > cap:
            return cap + 1
        return expansion_cost(tree[1], cap) + t
    if kind == "pad":
        return expansion_cost(tree[1], cap) + len(explicit(tree[1]))
    raise ValueError(kind)


@functools.lru_cache(maxsize=100000)
def expansion_tractable(tree: typing.Any, max_elements: int = EXPLICIT_LIMIT, exp_limit: int = 100_000, val_limit: int = 600_000) -> bool:
    """May the implementation be asked to expand this set numerically?  (expansion + its built-in validation pass over
    the divisors 1..64, which runs once per memoised node but shares the per-divisor residue caches)"""
    try:
        if len(explicit(tree)) > max_elements:
            return False
        if expansion_cost(tree) > exp_limit:
            return False
        total = 0
        for d in range(1, 65):
            total += modulo_cost(tree, d)
            if total > val_limit:
                return False
    except TooBig:
        return False
    return True


def subtrees(tree: typing.Any) -> typing.List[typing.Any]:
    out = [tree]
    kind = tree[0]
    if kind in ("cat", "uni"):
        for c in tree[1]:
            out.extend(subtrees(c))
    elif kind != "leaf":
        out.extend(subtrees(tree[1]))
    return out
