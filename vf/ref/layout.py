"""R-LAYOUT: the Specification's layout of a type spec, expressed with the mathematical set operations of vf.ref.bls.

Type specs are plain data:
    ["bool"]  ["uint", w, "sat"|"trunc"]  ["int", w]  ["float", w, "sat"|"trunc"]  ["byte"]  ["utf8"]  ["void", n]
    ["fixed", elem, n]  ["var", elem, capacity]
    ["struct", [[name, type], ...]]      (padding: ["", ["void", n]])
    ["union",  [[name, type], ...]]
    ["delim", struct-or-union, slack_bytes]     extent = pad8(longest inner representation) + 8 * slack_bytes

Written from the Cyphal Specification v1.0 section 3.7 (serialization): length prefixes / union tags are the narrowest
of uint8/16/32/64 able to hold the capacity / the largest variant index; composites are byte aligned and padded;
a delimited composite is a 32-bit header followed by anything of 0..extent bits in whole bytes.
"""
from __future__ import annotations

import functools
import typing

from . import bls

PRIMS = ("bool", "uint", "int", "float", "byte", "utf8", "void")
COMPOSITES = ("struct", "union", "delim")


def freeze(spec: typing.Any) -> typing.Any:
    if isinstance(spec, (list, tuple)):
        return tuple(freeze(x) for x in spec)
    return spec


def is_composite(spec: typing.Any) -> bool:
    return spec[0] in COMPOSITES


def width(spec: typing.Any) -> int:
    k = spec[0]
    if k == "bool":
        return 1
    if k in ("byte", "utf8"):
        return 8
    if k in ("uint", "int", "float", "void"):
        return spec[1]
    raise ValueError(spec)


def smallest_standard_uint(max_value: int) -> int:
    for w in (8, 16, 32, 64):
        if max_value <= (1 << w) - 1:
            return w
    raise ValueError("does not fit 64 bits: %r" % max_value)


def prefix_width(capacity: int) -> int:
    return smallest_standard_uint(capacity)


def tag_width(n_variants: int) -> int:
    return smallest_standard_uint(n_variants - 1)


DELIMITER_HEADER = 32


def alignment(spec: typing.Any) -> int:
    k = spec[0]
    if k in PRIMS:
        return 1
    if k in ("fixed", "var"):
        return alignment(spec[1])
    return 8


def fields_of(spec: typing.Any) -> typing.Any:
    """Fields (incl. padding) of a struct / union / delimited spec."""
    if spec[0] == "delim":
        return fields_of(spec[1])
    return spec[1]


@functools.lru_cache(maxsize=100000)
def tree(spec: typing.Any) -> typing.Any:
    """The bit length set of the type as a vf.ref.bls expression (frozen tuples)."""
    k = spec[0]
    if k in PRIMS:
        return ("leaf", (width(spec),))
    if k == "fixed":
        return ("rep", tree(spec[1]), spec[2])
    if k == "var":
        return ("cat", (("leaf", (prefix_width(spec[2]),)), ("rng", tree(spec[1]), spec[2])))
    if k == "struct":
        return ("pad", struct_body(spec[1]), 8)
    if k == "union":
        return ("pad", union_body(spec[1]), 8)
    if k == "delim":
        return ("cat", (("leaf", (DELIMITER_HEADER,)), ("rng", ("leaf", (8,)), extent(spec) // 8)))
    raise ValueError(spec)


def struct_body(fields: typing.Any, upto: typing.Optional[int] = None) -> typing.Any:
    """Lengths of the first `upto` fields laid out one after another, each padded to its own alignment; no final padding."""
    acc: typing.Any = ("leaf", (0,))
    for name, t in fields[: len(fields) if upto is None else upto]:
        a = alignment(t)
        if a > 1:
            acc = ("pad", acc, a)
        acc = ("cat", (acc, tree(t)))
    return acc


def union_body(fields: typing.Any) -> typing.Any:
    return ("cat", (("leaf", (tag_width(len(fields)),)), ("uni", tuple(tree(t) for _, t in fields))))


def inner_max(spec: typing.Any) -> int:
    """Longest representation of a composite when treated as sealed."""
    assert spec[0] in ("struct", "union")
    return bls.vmax(tree(spec))


def extent(spec: typing.Any) -> int:
    k = spec[0]
    if k == "delim":
        return inner_max(spec[1]) + 8 * spec[2]
    if k in ("struct", "union"):
        return inner_max(spec)
    raise ValueError(spec)


def depth(spec: typing.Any) -> int:
    k = spec[0]
    if k in PRIMS:
        return 0
    if k in ("fixed", "var"):
        return depth(spec[1]) + (1 if spec[1][0] in ("fixed", "var") else 0)
    if k == "delim":
        return depth(spec[1])
    return 1 + max([depth(t) for _, t in spec[1]] or [0])


def walk(spec: typing.Any) -> typing.Iterator[typing.Any]:
    yield spec
    k = spec[0]
    if k in ("fixed", "var"):
        yield from walk(spec[1])
    elif k == "delim":
        yield from walk(spec[1])
    elif k in ("struct", "union"):
        for _, t in spec[1]:
            yield from walk(t)


def type_string(spec: typing.Any, names: typing.Optional[typing.Dict[typing.Any, str]] = None) -> str:
    """Normalised DSDL spelling of a spec; composites are referred to by the names in `names` (spec -> 'ns.T1.1.0')."""
    k = spec[0]
    if k == "bool":
        return "bool"
    if k == "uint":
        return "%s uint%d" % ("saturated" if spec[2] == "sat" else "truncated", spec[1])
    if k == "int":
        return "saturated int%d" % spec[1]
    if k == "float":
        return "%s float%d" % ("saturated" if spec[2] == "sat" else "truncated", spec[1])
    if k in ("byte", "utf8"):
        return k
    if k == "void":
        return "void%d" % spec[1]
    if k == "fixed":
        return "%s[%d]" % (type_string(spec[1], names), spec[2])
    if k == "var":
        return "%s[<=%d]" % (type_string(spec[1], names), spec[2])
    if names is not None and spec in names:
        return names[spec]
    if k == "delim":
        return "delimited(%s, +%dB)" % (type_string(spec[1], names), spec[2])
    return "%s{%s}" % (k, "; ".join((type_string(t, names) + " " + n).strip() for n, t in spec[1]))
