"""Shared vocabulary of the property modules: Violation, Part, context, helpers.

A property module (vf/props/cXX.py) exposes

    ID, TITLE, RULE (how cases are generated + what makes one non-trivial), ASSUMPTIONS (list of str)
    parts(ctx) -> list[Part]

A Part is one generated sub-check: a Hypothesis strategy producing a JSON-serialisable *case* and a function
check(case, ctx) -> Info that raises Violation when the property is broken for that case.  The same check function
is what `run.py replay` calls, so a replay bypasses the library completely.
"""
from __future__ import annotations

import contextlib
import dataclasses
import hashlib
import json
import os
import shutil
import tempfile
import traceback
import typing


class Violation(Exception):
    """The property does not hold for the case at hand.  `signature` is the root-cause key."""

    def __init__(self, signature: str, expected: typing.Any = None, observed: typing.Any = None, detail: str = ""):
        super().__init__("%s: expected %r, observed %r %s" % (signature, expected, observed, detail))
        self.signature = signature
        self.expected = expected
        self.observed = observed
        self.detail = detail


class HarnessError(Exception):
    """The machinery itself is broken (never reported as a violation)."""


@dataclasses.dataclass
class Info:
    nontrivial: bool = False
    classes: typing.Sequence[str] = ()
    sample: typing.Any = None  # human-readable rendering of the case (used for evidence samples)


@dataclasses.dataclass
class Part:
    name: str
    strategy: typing.Any  # hypothesis strategy -> JSON-able case; or None when `machine` is given
    check: typing.Callable[[typing.Any, "Ctx"], Info]
    weight: float = 1.0  # share of the per-shard example budget
    cost: float = 1.0  # relative cost per example (budget is divided by it)
    grid: typing.Optional[typing.Callable[["Ctx"], typing.Iterable[typing.Any]]] = None  # exhaustive enumeration
    machine: typing.Any = None  # factory(ctx, record) -> RuleBasedStateMachine class; the case is the recorded history
    steps: int = 30  # stateful_step_count
    min_examples: int = 20
    # bytes -> case: makes the part an atheris campaign (thorough tier only); the string "hypothesis" means that the bytes are the
    # choice sequence of `strategy` (see `cover`)
    fuzz_decode: typing.Any = None
    fuzz_runs: int = 20000  # executions per shard
    fuzz_corpus: typing.Any = None  # callable(ctx) -> list of bytes (seed corpus), may be empty
    fuzz_dict: typing.Sequence[str] = ()


def cover(part: "Part", runs: int = 4000) -> "Part":
    """The coverage-guided twin of a Hypothesis part: same strategy, same check, but the choices of the strategy are made by libFuzzer
    (atheris) under coverage feedback from the instrumented pydsdl.  Its budget is `runs` executions per shard (times --scale), outside the
    shares of the Hypothesis parts (weight 0).  Findings are re-run through the plain check by the worker."""
    return Part("cover-" + part.name, part.strategy, part.check, weight=0, cost=part.cost, fuzz_decode="hypothesis", fuzz_runs=runs)


def all_parts(mod: typing.Any, ctx: "Ctx") -> typing.List["Part"]:
    """The parts of a property module plus, outside the quick tier, the coverage-guided twins it asks for: COVER = {part name: runs}."""
    parts = list(mod.parts(ctx))
    if ctx.tier != "quick":
        by_name = {p.name: p for p in parts}
        for name, runs in getattr(mod, "COVER", {}).items():
            if by_name[name].strategy is None:
                raise HarnessError("COVER names the part %r, which has no strategy" % name)
            parts.append(cover(by_name[name], runs))
    return parts


@dataclasses.dataclass
class Ctx:
    prop: str
    tier: str
    seed: int
    shard: int
    nshards: int
    repo: str
    scratch_root: str
    extra: dict = dataclasses.field(default_factory=dict)
    _counter: int = 0

    def scratch(self) -> str:
        """A fresh empty directory (removed by the caller through `cleanup`)."""
        self._counter += 1
        d = os.path.join(self.scratch_root, "w%d" % self._counter)
        if os.path.exists(d):
            shutil.rmtree(d, ignore_errors=True)
        os.makedirs(d)
        return d

    @staticmethod
    def cleanup(d: str) -> None:
        shutil.rmtree(d, ignore_errors=True)


def make_scratch_root(tag: str) -> str:
    base = "/dev/shm" if os.path.isdir("/dev/shm") and os.access("/dev/shm", os.W_OK) else tempfile.gettempdir()
    return tempfile.mkdtemp(prefix="pydsdl-verif-%s-" % tag, dir=base)


def fingerprint(case: typing.Any) -> str:
    return hashlib.sha1(json.dumps(case, sort_keys=True, default=str).encode()).hexdigest()


def pydsdl_frames(exc: BaseException) -> typing.List[str]:
    """module:function of every traceback frame that lies inside the pydsdl package, outermost first."""
    out = []
    for fs in traceback.extract_tb(exc.__traceback__):
        fn = fs.filename.replace("\\", "/")
        if "/pydsdl/" in fn and "/vf/" not in fn:
            out.append("%s:%s" % (fn.split("/pydsdl/", 1)[1].rsplit(".", 1)[0], fs.name))
    return out


def crash_signature(exc: BaseException) -> str:
    """Root-cause key of an unexpected exception: type + innermost pydsdl frame (following __cause__ for wrappers)."""
    inner = exc
    seen = 0
    while getattr(inner, "__cause__", None) is not None and seen < 8:
        inner = inner.__cause__  # type: ignore
        seen += 1
    frames = pydsdl_frames(inner) or pydsdl_frames(exc)
    where = frames[-1] if frames else "?"
    if inner is exc:
        return "crash:%s@%s" % (type(exc).__name__, where)
    return "crash:%s(%s)@%s" % (type(exc).__name__, type(inner).__name__, where)


def guarded(fn: typing.Callable[..., typing.Any], *args: typing.Any, allowed: tuple = (), what: str = "", **kw: typing.Any):
    """Call into pydsdl; exceptions in `allowed` are returned as values, anything else becomes a Violation.

    Returns (result, None) or (None, exception).
    """
    try:
        return fn(*args, **kw), None
    except Violation:
        raise
    except allowed as ex:  # type: ignore
        return None, ex
    except RecursionError as ex:
        raise Violation("crash:RecursionError" + (":" + what if what else ""), "no exception", repr(ex)[:200])
    except Exception as ex:  # pylint: disable=broad-except
        raise Violation(
            crash_signature(ex) + (":" + what if what else ""),
            "a result or one of %s" % [a.__name__ for a in allowed],
            "%s: %s" % (type(ex).__name__, str(ex)[:300]),
        ) from ex


@contextlib.contextmanager
def ordinary_stack(frames: int = 1000) -> typing.Iterator[None]:
    """Calls into the library with the stack head-room of an ordinary program: the interpreter's default limit of 1000 frames, counted
    from the caller.  Hypothesis raises the recursion limit while it runs a case, which hides recursion that runs away for users and
    moves every threshold an implementation derives from `sys.getrecursionlimit()`."""
    import inspect
    import sys

    saved = sys.getrecursionlimit()
    sys.setrecursionlimit(len(inspect.stack(0)) + frames)
    try:
        yield
    finally:
        sys.setrecursionlimit(saved)


def require(cond: bool, signature: str, expected: typing.Any = None, observed: typing.Any = None, detail: str = "") -> None:
    if not cond:
        raise Violation(signature, expected, observed, detail)


def jsonable(x: typing.Any) -> typing.Any:
    """Best-effort conversion for reports (never used for cases, which are JSON by construction)."""
    try:
        json.dumps(x)
        return x
    except (TypeError, ValueError):
        if isinstance(x, dict):
            return {str(k): jsonable(v) for k, v in x.items()}
        if isinstance(x, (list, tuple, set, frozenset)):
            xs = list(x)
            try:
                xs = sorted(xs)
            except TypeError:
                pass
            return [jsonable(v) for v in xs]
        return repr(x)[:500]
