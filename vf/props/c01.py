"""C01 - bit length set algebra is exact for every composition and every divisor."""
from __future__ import annotations

import typing

from hypothesis import strategies as st
from hypothesis.stateful import rule, precondition

from ..core import Info, Part, Ctx, Violation, HarnessError, require, guarded
from ..gen import bls as gen
from ..ref import bls as ref
from ..stateful import HistoryMachine

ID = "C01"
TITLE = "Bit length set algebra is exact for every composition and every divisor"
RULE = (
    "Cases are operator trees over leaf/concatenate/unite/repeat/repeat_range/pad_to_alignment (recursive strategy, <=8 leaves, "
    "counts 0..6 or huge up to 2**64, alignments 1..64) with a drawn list of queries (min, max, fixed_length, %d, is_aligned_at(d), "
    "is_aligned_at_byte, iter, len; d in 1..128 and a few huge), built through drawn API spellings (methods, + | += |= with ints / sets, "
    "radd/ror; operands of concatenate / unite handed over as list, tuple, generator, iterator, map or dict view); plus rule-based histories over a pool of sets; plus structured residues: a + H + {0..j}b for a subgroup H of Z_d (d <= 40), lifted by multiples of d, repeated k = q*d + r times with r uniform over Z_d and q up to 2**58, queried at d, its divisors and multiples; plus a complete grid of all residue sets {0} + S, |S| <= 3, modulo d = 6..12, repeated / range-repeated 0 .. 3d-1 times.  Oracles: explicit Python-set model (small) and sumset-power model in "
    "Z_d (any k).  Non-trivial = tree depth >= 2 with >= 2 distinct operator kinds, or a repetition count >= 2**32; distinct by SHA-1 "
    "of the case."
)
ASSUMPTIONS = [
    "divisors explored: 1..128 plus powers of two / random up to 2**64 when the implementation's own cost estimate "
    "(multicombinations of residues) is <= 2e5 tuples; queries above that are skipped and counted",
    "numerical expansion is requested only when the model's set has <= 5000 elements",
    "the two reference models are cross-checked against each other on every case where both apply",
]
BUDGET = {"quick": 1500, "thorough": 30000}
# coverage-guided twins (thorough tier): part name -> executions per shard; see core.cover
COVER = {"tree-small": 4000, "structured": 3000}

QUERY_COST_LIMIT = 200_000
EXPANSION_LIMIT = 100_000
VALIDATION_LIMIT = 600_000


class _Lcg:
    def __init__(self, seed: int) -> None:
        self.s = seed & 0xFFFFFFFF

    def next(self, n: int) -> int:
        if self.s == 0:
            return 0
        self.s = (self.s * 1664525 + 1013904223) & 0xFFFFFFFF
        return (self.s >> 8) % n


def _nary(kind: str, ops: typing.List[typing.Any], form: int) -> typing.Any:
    """concatenate / unite are documented to take an *iterable* of operands: lists, tuples, one-shot iterators alike."""
    from pydsdl import BitLengthSet

    arg: typing.Any
    if form == 1:
        arg = tuple(ops)
    elif form == 2:
        arg = (x for x in ops)  # generator: can be consumed only once
    elif form == 3:
        arg = iter(ops)
    elif form == 4:
        arg = map(lambda x: x, ops)
    elif form == 5:
        arg = dict.fromkeys(range(len(ops)))  # any iterable will do: here the values view of a dict
        for i, x in enumerate(ops):
            arg[i] = x
        arg = arg.values()
    else:
        arg = list(ops)
    return BitLengthSet.concatenate(arg) if kind == "cat" else BitLengthSet.unite(arg)


def build(tree: typing.Any, spell: _Lcg, registry: typing.List[typing.Tuple[typing.Any, typing.Any]]) -> typing.Any:
    """Materialise a tree through the public API; every intermediate BitLengthSet is registered with its subtree."""
    from pydsdl import BitLengthSet

    kind = tree[0]
    if kind == "leaf":
        xs = list(tree[1])
        m = spell.next(4)
        if m == 1 and len(xs) == 1:
            b = BitLengthSet(xs[0])
        elif m == 2:
            src = set(xs)
            b = BitLengthSet(src)
            src.add(max(xs) + 1000)  # the caller's own set is the caller's business: the new object must not alias it
        elif m == 3:
            b = BitLengthSet(BitLengthSet(xs))
        else:
            b = BitLengthSet(xs)
    elif kind in ("cat", "uni"):
        children = tree[1]
        m = spell.next(4)
        raw_ok = [c[0] == "leaf" for c in children]

        caller_sets: typing.List[typing.Set[int]] = []

        def raw(c: typing.Any) -> typing.Any:
            xs = list(c[1])
            if len(xs) == 1 and spell.next(2):
                return xs[0]
            caller_sets.append(set(xs))
            return caller_sets[-1]

        if m == 0 or len(children) == 1:
            ops = [build(c, spell, registry) for c in children]
            b = _nary(kind, ops, spell.next(6))
        elif m == 1:
            # static method with raw operands (ints / python sets) where the child is a leaf
            ops = [raw(c) if ok and spell.next(2) else build(c, spell, registry) for c, ok in zip(children, raw_ok)]
            b = _nary(kind, ops, spell.next(6))
        else:
            # left fold with the binary operators, incl. the reflected ones
            first, rest = children[0], children[1:]
            if raw_ok[0] and not raw_ok[1] and m == 3:
                acc = raw(first)  # exercised through __radd__ / __ror__
            else:
                acc = build(first, spell, registry)
            acc_tree: typing.Any = first
            for c, ok in zip(rest, raw_ok[1:]):
                rhs = raw(c) if ok and isinstance(acc, BitLengthSet) and spell.next(2) else build(c, spell, registry)
                if isinstance(acc, BitLengthSet) and spell.next(3) == 1:
                    # augmented assignment on a second reference: the object the first reference still names must not change
                    # (it is in the registry with its own subtree and is re-checked at the end)
                    alias = acc
                    if kind == "cat":
                        alias += rhs
                    else:
                        alias |= rhs
                    acc = alias
                else:
                    acc = (acc + rhs) if kind == "cat" else (acc | rhs)
                acc_tree = (kind, (acc_tree, c))
                if isinstance(acc, BitLengthSet):
                    registry.append((acc, acc_tree))  # every partial result of the fold stays what it was
            b = acc
        for cs in caller_sets:
            cs.add(max(cs) + 1000)
    elif kind == "rep":
        b = build(tree[1], spell, registry).repeat(tree[2])
    elif kind == "rng":
        b = build(tree[1], spell, registry).repeat_range(tree[2])
    elif kind == "pad":
        b = build(tree[1], spell, registry).pad_to_alignment(tree[2])
    else:
        raise HarnessError(kind)
    registry.append((b, tree))
    return b


def _has_huge_alignment(tree: typing.Any) -> bool:
    if tree[0] == "leaf":
        return False
    if tree[0] == "pad":
        return tree[2] > 2**16 or _has_huge_alignment(tree[1])
    if tree[0] in ("rep", "rng"):
        return _has_huge_alignment(tree[1])
    return any(_has_huge_alignment(c) for c in tree[1])


class Oracle:
    """Model answers for one tree, with tractability gating."""

    def __init__(self, tree: typing.Any, counters: typing.Dict[str, int], cost_limit: int = QUERY_COST_LIMIT) -> None:
        self.tree = tree
        self.c = counters
        self.cost_limit = cost_limit
        self._explicit: typing.Any = None
        self._explicit_done = False

    def explicit(self) -> typing.Optional[typing.Set[int]]:
        if not self._explicit_done:
            self._explicit_done = True
            try:
                self._explicit = ref.explicit(self.tree)
            except ref.TooBig:
                self._explicit = None
        return self._explicit

    def residues(self, d: int) -> typing.Optional[typing.FrozenSet[int]]:
        try:
            r = ref.residues(self.tree, d)
        except ref.TooBig:
            # (an alignment far beyond the modular model's reach: the explicit model alone answers, where the set is small enough)
            ex0 = self.explicit()
            return frozenset(x % d for x in ex0) if ex0 is not None and self.expansion_tractable() else None
        ex = self.explicit()
        if ex is not None:
            self.c["model_cross_checks"] = self.c.get("model_cross_checks", 0) + 1
            if frozenset(x % d for x in ex) != r:
                raise HarnessError("reference models disagree on %s %% %d" % (ref.render(self.tree), d))
        return r

    def mod_tractable(self, d: int) -> bool:
        try:
            return ref.modulo_cost(self.tree, d) <= self.cost_limit
        except ref.TooBig:
            # the cost model works on residue masks and gives up on moduli beyond 2**22 (lcm with a huge alignment); for sets that
            # may be expanded numerically the solver's cost under such a modulus is that of the expansion
            return _has_huge_alignment(self.tree) and self.expansion_tractable()

    def expansion_tractable(self) -> bool:
        return self.explicit() is not None and ref.expansion_tractable(self.tree, ref.EXPLICIT_LIMIT, EXPANSION_LIMIT, VALIDATION_LIMIT)

    def min(self) -> int:
        v = ref.vmin(self.tree)
        ex = self.explicit()
        if ex is not None and min(ex) != v:
            raise HarnessError("closed-form min disagrees with explicit model")
        return v

    def max(self) -> int:
        v = ref.vmax(self.tree)
        ex = self.explicit()
        if ex is not None and max(ex) != v:
            raise HarnessError("closed-form max disagrees with explicit model")
        return v


def run_query(b: typing.Any, oracle: Oracle, q: typing.Any, counters: typing.Dict[str, int], tag: str = "") -> None:
    kind = q[0]
    name = ref.render(oracle.tree)
    if kind == "min":
        got, _ = guarded(lambda: b.min, what="min")
        require(got == oracle.min(), "min" + tag, oracle.min(), got, name)
    elif kind == "max":
        got, _ = guarded(lambda: b.max, what="max")
        require(got == oracle.max(), "max" + tag, oracle.max(), got, name)
    elif kind == "fixed":
        got, _ = guarded(lambda: b.fixed_length, what="fixed_length")
        exp = oracle.min() == oracle.max()
        require(got is exp, "fixed_length" + tag, exp, got, name)
    elif kind in ("mod", "al", "albyte"):
        d = 8 if kind == "albyte" else q[1]
        if not oracle.mod_tractable(d):
            counters["queries_skipped_intractable"] = counters.get("queries_skipped_intractable", 0) + 1
            return
        exp_r = oracle.residues(d)
        if exp_r is None:
            counters["queries_skipped_intractable"] = counters.get("queries_skipped_intractable", 0) + 1
            return
        counters["mod_queries"] = counters.get("mod_queries", 0) + 1
        if kind == "mod":
            got, _ = guarded(lambda: sorted(set(b % d)), what="mod")
            require(got == sorted(exp_r), "mod" + tag, sorted(exp_r), got, "%s %% %d" % (name, d))
        elif kind == "al":
            got, _ = guarded(lambda: b.is_aligned_at(d), what="is_aligned_at")
            require(got is (exp_r == {0}), "is_aligned_at" + tag, exp_r == {0}, got, "%s @ %d" % (name, d))
        else:
            got, _ = guarded(lambda: b.is_aligned_at_byte(), what="is_aligned_at_byte")
            require(got is (exp_r == {0}), "is_aligned_at_byte" + tag, exp_r == {0}, got, name)
    elif kind in ("iter", "len"):
        if not oracle.expansion_tractable():
            counters["expansions_skipped"] = counters.get("expansions_skipped", 0) + 1
            return
        ex = oracle.explicit()
        assert ex is not None
        counters["expansions"] = counters.get("expansions", 0) + 1
        if kind == "iter":
            got, _ = guarded(lambda: list(b), what="iter")
            require(sorted(got) == sorted(ex), "iter" + tag, sorted(ex)[:50], sorted(got)[:50], name)
        else:
            got, _ = guarded(lambda: len(b), what="len")
            require(got == len(ex), "len" + tag, len(ex), got, name)
    else:
        raise HarnessError("unknown query %r" % (q,))


def _classify(tree: typing.Any) -> typing.Tuple[bool, typing.List[str]]:
    d = ref.depth(tree)
    ks = ref.kinds(tree)
    mc = ref.max_count(tree)
    nontrivial = (d >= 2 and len(ks) >= 2) or mc >= 2**32
    classes = ["depth:%d" % min(d, 5), "kinds:%d" % len(ks)]
    if mc >= 2**32:
        classes.append("count>=2^32")
    elif mc > 6:
        classes.append("count>6")
    for k in sorted(ks):
        classes.append("op:" + k)
    return nontrivial, classes


def check_tree(case: typing.Any, ctx: Ctx) -> Info:
    tree = ref.freeze(case["tree"])
    counters = ctx.extra
    registry: typing.List[typing.Tuple[typing.Any, typing.Any]] = []
    b, _ = guarded(build, tree, _Lcg(case.get("spell", 0)), registry, what="build")
    oracle = Oracle(tree, counters, cost_limit=case.get("cost_limit", QUERY_COST_LIMIT))
    for q in case["queries"]:
        run_query(b, oracle, q, counters)
    # operands are never changed by building new sets from them / by querying the result: every intermediate object
    # still answers like its own subtree
    for sub, subtree in registry[:-1]:
        so = Oracle(subtree, counters)
        run_query(sub, so, ["min"], counters, tag=":operand")
        run_query(sub, so, ["max"], counters, tag=":operand")
        for q in case["queries"][:3]:
            if q[0] in ("mod", "al"):
                run_query(sub, so, q, counters, tag=":operand")
        if any(q[0] in ("iter", "len") for q in case["queries"]):
            run_query(sub, so, ["iter"], counters, tag=":operand")
    nontrivial, classes = _classify(tree)
    return Info(nontrivial=nontrivial, classes=classes, sample={"tree": ref.render(tree), "queries": case["queries"][:8]})


def _queries(huge: bool) -> st.SearchStrategy:
    q = st.one_of(
        st.sampled_from([["min"], ["max"], ["fixed"], ["albyte"]]),
        gen.divisors().map(lambda d: ["mod", d]),
        gen.divisors().map(lambda d: ["mod", d]),
        gen.divisors().map(lambda d: ["al", d]),
        st.sampled_from([["iter"], ["len"]]) if not huge else st.sampled_from([["min"], ["max"]]),
    )
    return st.lists(q, min_size=3, max_size=14)


def _tree_cases(huge: bool) -> st.SearchStrategy:
    return st.fixed_dictionaries(
        {"tree": gen.trees(huge=huge), "queries": _queries(huge), "spell": st.integers(0, 2**32 - 1)}
    )


# --------------------------------------------------------------------------------------------------------------
# Histories: a pool of sets; composition steps create new members from old ones, query steps interrogate any member in any
# order and any number of times.  Every answer ever returned must equal the model's - this is what makes the memoisation
# layer observable (a cache keyed wrongly, an operand aliased into a composite, ...).


def apply_step(state: typing.Dict[str, typing.Any], step: typing.Any, counters: typing.Dict[str, int]) -> None:
    from pydsdl import BitLengthSet

    pool: typing.List[typing.Tuple[typing.Any, typing.Any]] = state["pool"]
    op = step[0]

    def pick(i: int) -> typing.Tuple[typing.Any, typing.Any]:
        return pool[i % len(pool)]

    if op == "leaf":
        t = ref.freeze(["leaf", step[1]])
        b, _ = guarded(lambda: BitLengthSet(list(step[1])), what="ctor")
        pool.append((b, t))
    elif op in ("cat", "uni"):
        members = [pick(i) for i in step[1]]
        t = (op, tuple(m[1] for m in members))
        form = step[2] if len(step) > 2 else 0
        b, _ = guarded(lambda: _nary(op, [m[0] for m in members], form), what=op)
        pool.append((b, t))
    elif op in ("add", "or"):
        lhs = pick(step[1])
        rhs_raw = step[2]
        t_r = ref.freeze(["leaf", rhs_raw if isinstance(rhs_raw, list) else [rhs_raw]])
        raw = set(rhs_raw) if isinstance(rhs_raw, list) else rhs_raw
        reflected = step[3]
        kind = "cat" if op == "add" else "uni"
        if reflected:
            b, _ = guarded(lambda: (raw + lhs[0]) if op == "add" else (raw | lhs[0]), what="r" + op)
            t = (kind, (t_r, lhs[1]))
        else:
            b, _ = guarded(lambda: (lhs[0] + raw) if op == "add" else (lhs[0] | raw), what=op)
            t = (kind, (lhs[1], t_r))
        pool.append((b, t))
    elif op in ("iadd", "ior"):
        lhs = pick(step[1])
        rhs_raw = step[2]
        if isinstance(rhs_raw, dict):
            other = pick(rhs_raw["pool"])
            rhs_obj, t_r = other[0], other[1]
        else:
            t_r = ref.freeze(["leaf", rhs_raw if isinstance(rhs_raw, list) else [rhs_raw]])
            rhs_obj = set(rhs_raw) if isinstance(rhs_raw, list) else rhs_raw
        target = lhs[0]  # a second reference to the pool member; the member itself must stay what it was

        def run() -> typing.Any:
            x = target
            if op == "iadd":
                x += rhs_obj
            else:
                x |= rhs_obj
            return x

        b, _ = guarded(run, what=op)
        pool.append((b, ("cat" if op == "iadd" else "uni", (lhs[1], t_r))))
        run_query(lhs[0], Oracle(lhs[1], counters), ["min"], counters, tag=":operand-after-augmented-assignment")
        run_query(lhs[0], Oracle(lhs[1], counters), ["max"], counters, tag=":operand-after-augmented-assignment")
        run_query(lhs[0], Oracle(lhs[1], counters), ["mod", 8], counters, tag=":operand-after-augmented-assignment")
    elif op in ("rep", "rng", "pad"):
        src = pick(step[1])
        n = step[2]
        m = {"rep": "repeat", "rng": "repeat_range", "pad": "pad_to_alignment"}[op]
        b, _ = guarded(lambda: getattr(src[0], m)(n), what=m)
        pool.append((b, (op, src[1], n)))
    elif op == "q":
        b, t = pick(step[1])
        state["queries"] += 1
        run_query(b, Oracle(t, counters), step[2], counters, tag=":history")
    else:
        raise HarnessError("unknown step %r" % (step,))
    if len(pool) > 1 and ref.depth(pool[-1][1]) > 6:
        pool.pop()  # keep the model tractable; the step is simply not retained


def check_history(case: typing.Any, ctx: Ctx) -> Info:
    state: typing.Dict[str, typing.Any] = {"pool": [], "queries": 0}
    for step in case:
        if step[0] != "leaf" and not state["pool"]:
            continue
        apply_step(state, step, ctx.extra)
    return _history_info(state, case)


def _history_info(state: typing.Dict[str, typing.Any], history: typing.Any) -> Info:
    pool = state["pool"]
    deepest = max(pool, key=lambda m: ref.depth(m[1]))[1] if pool else ("leaf", (0,))
    nontrivial, classes = _classify(deepest)
    nq = state["queries"]
    return Info(
        nontrivial=nontrivial and nq >= 2,
        classes=["history"] + classes + ["queries:%s" % ("0" if nq == 0 else "1-5" if nq <= 5 else ">5")],
        sample={"history": history[:12], "deepest": ref.render(deepest)},
    )


def machine_factory(ctx: Ctx, hooks: typing.Any) -> typing.Any:
    class BlsMachine(HistoryMachine):
        def initial_state(self) -> typing.Any:
            return {"pool": [], "queries": 0}

        def apply(self, state: typing.Any, step: typing.Any) -> None:
            apply_step(state, step, ctx.extra)

        def info(self) -> Info:
            return _history_info(self.state, self.history)

        @rule(xs=st.lists(gen.elements(), min_size=1, max_size=3, unique=True))
        def new_leaf(self, xs: typing.List[int]) -> None:
            self.step(["leaf", sorted(xs)])

        @precondition(lambda self: self.state["pool"])
        @rule(op=st.sampled_from(["cat", "uni"]), idx=st.lists(st.integers(0, 63), min_size=1, max_size=3), form=st.integers(0, 5))
        def nary(self, op: str, idx: typing.List[int], form: int) -> None:
            self.step([op, idx, form])

        @precondition(lambda self: self.state["pool"])
        @rule(
            op=st.sampled_from(["add", "or"]),
            i=st.integers(0, 63),
            raw=st.one_of(gen.elements(), st.lists(gen.elements(), min_size=1, max_size=3, unique=True).map(sorted)),
            reflected=st.booleans(),
        )
        def binary(self, op: str, i: int, raw: typing.Any, reflected: bool) -> None:
            self.step([op, i, raw, reflected])

        @precondition(lambda self: self.state["pool"])
        @rule(
            op=st.sampled_from(["iadd", "ior"]),
            i=st.integers(0, 63),
            rhs=st.one_of(gen.elements(), st.lists(gen.elements(), min_size=1, max_size=3, unique=True).map(sorted), st.integers(0, 63).map(lambda j: {"pool": j})),
        )
        def augmented(self, op: str, i: int, rhs: typing.Any) -> None:
            self.step([op, i, rhs])

        @precondition(lambda self: self.state["pool"])
        @rule(op=st.sampled_from(["rep", "rng"]), i=st.integers(0, 63), k=st.one_of(gen.small_count(), gen.huge_count()))
        def repeat(self, op: str, i: int, k: int) -> None:
            self.step([op, i, k])

        @precondition(lambda self: self.state["pool"])
        @rule(i=st.integers(0, 63), a=gen.alignment())
        def pad(self, i: int, a: int) -> None:
            self.step(["pad", i, a])

        @precondition(lambda self: self.state["pool"])
        @rule(
            i=st.integers(0, 63),
            q=st.one_of(
                st.sampled_from([["min"], ["max"], ["fixed"], ["albyte"], ["iter"], ["len"]]),
                gen.divisors().map(lambda d: ["mod", d]),
                gen.divisors().map(lambda d: ["al", d]),
            ),
        )
        def query(self, i: int, q: typing.Any) -> None:
            self.step(["q", i, q])

    BlsMachine.hooks = hooks
    BlsMachine.ctx = ctx
    return BlsMachine


# --------------------------------------------------------------------------------------------------------------
# Structured residues.  Uniformly drawn leaves almost never have additive structure modulo the queried divisor, and that is
# exactly where shortcuts for "the k-fold sumset stops growing after ..." go wrong (unions of cosets of a subgroup of Z_d,
# arithmetic progressions, counts in a particular residue class mod d).  Two parts put a generator on that dimension:
#   residue-grid   every residue set {0} + S, |S| <= 3, modulo d = 6..12, repeated / range-repeated k = 0 .. 3d-1 times (complete)
#   structured     a + H + {0..j}*b (H a subgroup of Z_d, d <= 40), representatives lifted by multiples of d, k = q*d + r with r
#                  uniform over Z_d and q from 0 to 2**58, optionally under a concatenation / union / padding, queried at d, its
#                  divisors and multiples


def _residue_grid(ctx: Ctx) -> typing.Iterator[typing.Any]:
    import itertools

    for d in range(6, 13):
        for n in (1, 2, 3):
            for rest in itertools.combinations(range(1, d), n):
                leaf = ["leaf", [0] + list(rest)]
                for k in range(0, 3 * d):
                    for op in ("rep", "rng"):
                        yield {"tree": [op, leaf, k], "queries": [["mod", d]], "spell": 0, "grid": True}


def check_structured(case: typing.Any, ctx: Ctx) -> Info:
    info = check_tree(case, ctx)
    info.classes = list(info.classes) + ["structured"] + list(case.get("labels", []))
    info.nontrivial = True  # by construction: additive structure modulo the queried divisor and a count beyond it
    if case.get("grid"):
        info.classes = ["residue-grid"]
    return info


@st.composite
def _structured_cases(draw: typing.Any) -> typing.Any:
    d = draw(st.one_of(st.integers(2, 24), st.integers(2, 40), st.sampled_from([6, 8, 10, 12, 14, 16, 18, 20, 24, 30, 32, 36])))
    divs = [g for g in range(1, d + 1) if d % g == 0]
    g = draw(st.sampled_from(divs[: max(1, len(divs) - 1)]))  # order of the subgroup H = (d/g) Z_d; never the whole group
    j = draw(st.integers(0, 3))
    if g * (j + 1) > 6:
        j = max(0, 6 // g - 1)
    a = draw(st.integers(0, d - 1))
    b = draw(st.integers(1, max(1, d - 1)))
    res = sorted({(a + h * (d // g) + i * b) % d for h in range(g) for i in range(j + 1)})
    lifted = sorted({r + d * draw(st.integers(0, 3)) for r in res})
    op = draw(st.sampled_from(["rep", "rep", "rng"]))
    r = draw(st.integers(0, d - 1))
    q = draw(st.one_of(st.integers(0, 4), st.integers(0, 4), st.sampled_from([2**8, 2**16, 2**32, 2**58]), st.integers(5, 2**58)))
    k = q * d + r
    tree: typing.Any = [op, ["leaf", lifted], k]
    labels = ["residues:%d" % len(res), "subgroup:%d" % g, "q:%s" % ("0" if q == 0 else "1-4" if q <= 4 else "huge")]
    wrap = draw(st.integers(0, 5))
    if wrap == 1:
        tree = ["cat", [tree, gen_leaf(draw)]]
    elif wrap == 2:
        tree = ["uni", [tree, gen_leaf(draw)]]
    elif wrap == 3:
        tree = ["pad", tree, draw(st.sampled_from([1, 2, 4, 8] + [x for x in divs if x <= 64]))]
    elif wrap == 4:
        tree = [draw(st.sampled_from(["rep", "rng"])), tree, draw(st.integers(0, 3))]
    queries = [["mod", d], ["al", d], ["min"], ["max"]]
    others = [x for x in divs if 1 < x < d] + [2 * d, 3 * d]
    queries += [["mod", draw(st.sampled_from(others))]]
    return {"tree": tree, "queries": queries, "spell": draw(st.integers(0, 2**32 - 1)), "labels": labels, "cost_limit": 20000}


def gen_leaf(draw: typing.Any) -> typing.Any:
    return draw(gen.leaf(3))


def parts(ctx: Ctx) -> typing.List[Part]:
    return [
        Part("tree-small", _tree_cases(False), check_tree, weight=4),
        Part("tree-huge", _tree_cases(True), check_tree, weight=4),
        Part("structured", _structured_cases(), check_structured, weight=3),
        Part("residue-grid", None, check_structured, weight=0, grid=_residue_grid),
        Part("history", None, check_history, weight=1, cost=4.0, machine=machine_factory, steps=40),
    ]
