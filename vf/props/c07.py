"""C07 - deserialization is total and obeys implicit truncation / zero extension."""
from __future__ import annotations

import typing

from hypothesis import strategies as st

from ..core import Info, Part, Ctx, Violation, HarnessError, require, guarded
from ..gen import types as gt
from ..ref import codec, layout
from . import _codec_common as cc

ID = "C07"
TITLE = "Deserialization is total and obeys implicit truncation / zero extension"
RULE = (
    "(Further kinds: `inflate` - every delimited object at every nesting level is followed by 0..11 bytes its reader does not know, all enclosing headers counting them, optionally with one header bumped beyond its payload or beyond every enclosing payload; flip / header / inflate optionally followed by further bytes in the same buffer; part nested-delimited: delimited inside delimited, 2..3 levels, the nested object last / in the middle / in an array, tight and slack extents.  Buffer forms: memoryviews of other item formats (b, c, H, I, Q, h, f) and two-dimensional shapes of the same bytes.)  "
    "Cases are (type spec, byte string, flags): specs from G-TYPE (capacities <= 12, nested delimited members) plus five fixed specs with 16 / 32-bit length prefixes and payloads beyond 255 bytes, bytes that are uniformly "
    "random (length 0..2x the longest representation), a prefix of a valid representation, a valid representation with 1..3 flipped bits "
    "(hitting length prefixes, tags, delimiter headers), a valid representation followed by junk, a valid representation with one delimiter header made smaller or larger, or all-0xFF; with and without the "
    "top-level delimiter header.  Oracles: exception whitelist (SerDesError / ValueError); differential against an independent decoder "
    "(value, or error category array-length / union-tag / delimiter-header / UTF-8); fixed point deserialize(serialize(x)) == x; implicit "
    "truncation (junk after a complete representation ignored); zero extension (b and b+zeros decode alike unless b fails on a delimiter "
    "header); buffer isolation (memoryview slices with different surroundings, a strided view, no aliasing of the caller's buffer).  Non-trivial = the bytes end inside the representation, "
    "or decoding raises a validation error, or the type has a nested delimited member."
)
ASSUMPTIONS = [
    "array capacities <= 12 (a zero-extended 2**31-element array is a legitimate but uncomputable answer)",
    "error categories are compared, not messages",
]
BUDGET = {"quick": 1200, "thorough": 25000}


def _has_nested_delimited(spec: typing.Any) -> bool:
    body = spec[1] if spec[0] == "delim" else spec
    return any(s[0] == "delim" for _, t in body[1] for s in layout.walk(t))


def _derive_bytes(spec: typing.Any, case: typing.Any, with_header: bool) -> typing.Tuple[bytes, typing.Optional[bytes], str]:
    """Returns (bytes under test, the valid representation it was derived from or None, kind)."""
    kind = case["kind"]
    if kind == "random":
        return bytes.fromhex(case["bytes"]), None, kind
    if kind == "ones":
        return b"\xff" * (case["n"] % 80), None, kind
    if kind == "inflate":
        # every delimited object (at every nesting level) may carry bytes after what this revision of its type knows - written by
        # a newer, longer revision - with all enclosing headers counting them: "new data, old schema", several levels deep.
        # Such payloads may exceed the extent of the reader's revision; they are skipped, never rejected.
        plan = iter([(e % 12 if e % 3 else 0, f % 256) for e, f in case["extra"]] + [(0, 0)] * 64)
        enc = codec.encode(spec, case["value"], with_header, inflate=plan)
        bits = list(enc.bits)
        bump = case.get("bump")
        if bump is not None and enc.headers:
            # on top of that one header (at any level) announces a few bytes more than were written for it: whether that is an
            # overrun is decided against what remains of the *enclosing* payload, not against what happens to follow in the buffer
            pos, n = enc.headers[bump % len(enc.headers)]
            new = n + 1 + (bump // 16) % 3
            if (bump // 8) % 2:
                # ... by just more than what is left of the whole representation after its own payload: it overruns every enclosing
                # payload, however much the buffer may hold after them
                new = n + (len(bits) - (pos + 32 + 8 * n)) // 8 + 1 + (bump // 16) % 3
            for i in range(32):
                bits[pos + i] = (new >> i) & 1
            kind = "inflate:bumped-header"
        data = codec.bits_to_bytes(bits)
        cut = case.get("cut", 0)
        return (data if cut % 4 else data[: cut // 4 % (len(data) + 1)]), None, kind
    enc = codec.encode(spec, case["value"], with_header)
    valid = codec.bits_to_bytes(enc.bits)
    if kind == "header":
        # tamper with one delimiter header (smaller: an older writer / bytes left over; larger: overrun), keep the rest
        if not enc.headers:
            return valid, valid, "header:none"
        pos, n = enc.headers[case["which"] % len(enc.headers)]
        new = case["new"] % (n + 3) if case["new"] % 4 else max(0, n - 1 - case["new"] % 3)
        bits = list(enc.bits)
        for i in range(32):
            bits[pos + i] = (new >> i) & 1
        return codec.bits_to_bytes(bits), valid, "header:" + ("smaller" if new < n else "same" if new == n else "larger")
    if kind == "prefix":
        n = case["cut"] % (len(valid) + 1)
        return valid[:n], valid, kind
    if kind == "flip":
        b = bytearray(valid)
        if b:
            for pos in case["flips"]:
                p = pos % (len(b) * 8)
                b[p // 8] ^= 1 << (p % 8)
        return bytes(b), valid, kind
    if kind == "junk":
        return valid + bytes.fromhex(case["junk"]), valid, kind
    if kind == "ones":
        return b"\xff" * (case["n"] % 80), None, kind
    raise HarnessError(kind)


def check_bytes(case: typing.Any, ctx: Ctx) -> Info:
    import pydsdl

    spec = layout.freeze(case["spec"])
    with_header = bool(case.get("header")) and spec[0] == "delim"
    t = cc.build_type(spec)
    data, valid, kind = _derive_bytes(spec, case, with_header)
    if case.get("tail") and kind.split(":")[0] in ("flip", "header", "inflate"):
        # a damaged / tampered / inflated representation that is followed by further bytes in the same buffer (the next object of a
        # stream, padding of a transport frame): what lies after the announced payload of the top-level object is nobody's data
        data, valid, kind = data + bytes.fromhex(case["tail"]), None, kind + "+tail"
    name = layout.type_string(spec)[:300]
    detail = "type %s bytes %s" % (name, data.hex())

    got = cc.deserialize_outcome(t, spec, data, with_header)  # raises on non-whitelisted exceptions
    exp = cc.reference_outcome(spec, data, with_header)
    if not cc.same_outcome(spec, got, exp):
        if exp[0] == "error" and got[0] == "ok":
            sig = "accepted-invalid:" + exp[1]
        elif exp[0] == "ok" and got[0] == "error":
            sig = "rejected-valid:" + got[1]
        elif exp[0] == "error":
            sig = "wrong-error:" + exp[1]
        else:
            sig = "decoded-value"
        raise Violation(sig, exp, got, detail)

    classes = ["kind:" + kind.split(":")[0]] + (["tamper:" + kind] if ":" in kind else []) + [ "outcome:" + (got[1] if got[0] == "error" else "ok"), "top:" + spec[0]] + (["with-header"] if with_header else [])

    if got[0] == "ok":
        # fixed point: the returned object is valid for the type
        py = codec.to_python(spec, got[1])
        again, _ = guarded(pydsdl.serialize, t, py, with_delimiter_header=with_header, what="serialize-decoded")
        back = cc.deserialize_outcome(t, spec, again, with_header, what="deserialize-fixed-point")
        require(cc.same_outcome(spec, back, got), "fixed-point", got, back, detail)
        # implicit truncation: bytes after the complete representation `again` are ignored
        junk = bytes.fromhex(case.get("junk", "ff00a5"))
        more = cc.deserialize_outcome(t, spec, again + junk, with_header, what="deserialize-truncation")
        require(cc.same_outcome(spec, more, got), "implicit-truncation", got, more, detail + " + junk " + junk.hex())

    if got[0] == "ok":
        # the returned object belongs to the caller: no mutable part of it occurs twice in it, and scribbling all over it leaves
        # no trace in what the next call returns for the same bytes
        cc.check_result_ownership(t, spec, data, with_header, got, detail)

    # zero extension: b and b + zero bytes decode alike, unless b fails on a delimiter header
    if not (got[0] == "error" and got[1] == "delimiter_header"):
        for n in (1, case.get("zeros", 3) % 9 + 1, 40):
            ext = cc.deserialize_outcome(t, spec, data + b"\x00" * n, with_header, what="deserialize-zero-extended")
            require(cc.same_outcome(spec, ext, got), "zero-extension", got, ext, detail + " + %d zero bytes" % n)

    # no dependence on data outside b: the same bytes inside larger buffers with different surroundings
    for pre, post in ((b"\xff\xff\xff", b"\xff" * 9), (b"\x00\x55", b"\x01\x02\x03\x04\xaa" * 3)):
        big = bytearray(pre + data + post)
        view = memoryview(big)[len(pre) : len(pre) + len(data)]
        iso = cc.deserialize_outcome(t, spec, view, with_header, what="deserialize-memoryview")
        require(cc.same_outcome(spec, iso, got), "buffer-isolation", got, iso, detail + " inside %s..%s" % (pre.hex(), post.hex()))
        # the caller may reuse its buffer afterwards: the returned object must not alias it
        if iso[0] == "ok":
            raw, _ = guarded(pydsdl.deserialize, t, view, with_delimiter_header=with_header, what="deserialize-memoryview")
            for i in range(len(big)):
                big[i] ^= 0xFF
            later = ("ok", codec.from_python(spec, raw))  # converted only after the caller has scribbled over its buffer
            require(cc.same_outcome(spec, later, got), "result-aliases-input-buffer", got, later, detail)
    # a non-contiguous view (every second byte of an interleaved buffer) is the same byte string
    inter = bytearray(2 * len(data))
    inter[0::2] = data
    inter[1::2] = b"\xa5" * len(data)
    strided = cc.deserialize_outcome(t, spec, memoryview(inter)[::2], with_header, what="deserialize-strided-memoryview")
    require(cc.same_outcome(spec, strided, got), "buffer-isolation:strided", got, strided, detail)

    # the byte string is what counts, not the item format / shape of the buffer that holds it
    if data:
        raw = bytearray(data)
        shapes: typing.List[typing.Any] = [memoryview(raw).cast("b"), memoryview(raw).cast("c")]
        for fmt, size in (("H", 2), ("I", 4), ("Q", 8), ("h", 2), ("f", 4)):
            if len(raw) % size == 0:
                shapes.append(memoryview(raw).cast(fmt))
        for rows in (2, 3):
            if len(raw) % rows == 0 and len(raw) > rows:
                shapes.append(memoryview(raw).cast("B", (rows, len(raw) // rows)))
        for view in shapes[case.get("zeros", 0) % len(shapes) :][:2]:
            shaped = cc.deserialize_outcome(t, spec, view, with_header, what="deserialize-shaped-memoryview")
            require(cc.same_outcome(spec, shaped, got), "buffer-format-changes-outcome", got, shaped, detail + " as memoryview format %s shape %s" % (view.format, view.shape))

    ends_inside = valid is not None and len(data) < len(valid)
    if kind == "random":
        ends_inside = len(data) < cc.max_bytes(spec, with_header) and got[0] == "ok" and len(
            guarded(pydsdl.serialize, t, codec.to_python(spec, got[1]), with_delimiter_header=with_header)[0]
        ) > len(data)
    if ends_inside:
        classes.append("ends-inside")
    nested = _has_nested_delimited(spec)
    if nested:
        classes.append("nested-delimited")
    nontrivial = ends_inside or got[0] == "error" or nested
    return Info(bool(nontrivial), classes, sample={"type": name, "bytes": data.hex(), "kind": kind, "outcome": got if got[0] == "error" else "ok"})


def _large_values(fs: typing.Any) -> st.SearchStrategy:
    """Values whose arrays are long enough to need 16 / 32-bit length prefixes and payloads beyond 255 bytes."""

    def arr(t: typing.Any) -> st.SearchStrategy:
        cap = t[2]
        n = st.sampled_from(sorted({0, 1, min(cap, 255), min(cap, 256), min(cap, 257), cap - 1, cap})) if t[0] == "var" else st.just(cap)
        el = t[1][0]
        if el == "byte":
            return st.tuples(n, st.integers(0, 255)).map(lambda x: {"b": (bytes([x[1], (x[1] * 5 + 3) % 256, 0xFF]) * (x[0] // 3 + 1))[: x[0]].hex()})
        if el == "utf8":
            return st.tuples(n, st.sampled_from(["a", "\u00e9", "\u20ac", "\U0001F600"])).map(lambda x: (x[1] * x[0]).encode("utf-8")[: x[0]].decode("utf-8", "ignore"))
        if el in ("delim", "struct", "union"):
            return st.integers(0, min(cap, 20)).flatmap(lambda k: st.lists(val(t[1]), min_size=k, max_size=k))
        return st.tuples(n, st.lists(gt.values(t[1]), min_size=1, max_size=4)).map(lambda x: [x[1][i % len(x[1])] for i in range(x[0])])

    def val(t: typing.Any) -> st.SearchStrategy:
        k = t[0]
        if k in ("fixed", "var"):
            return arr(t)
        if k == "delim":
            return val(t[1])
        if k == "struct":
            return st.fixed_dictionaries({n: val(ft) for n, ft in t[1] if n})
        if k == "union":
            return st.integers(0, len(t[1]) - 1).flatmap(lambda i: val(t[1][i][1]).map(lambda v: {t[1][i][0]: v}))
        return gt.values(t)

    return val(fs)


LARGE_SPECS = [
    ["struct", [["a", ["var", ["byte"], 300]], ["t", ["uint", 8, "sat"]]]],
    ["struct", [["p", ["uint", 3, "sat"]], ["a", ["var", ["uint", 7, "sat"], 300]], ["t", ["uint", 16, "sat"]]]],
    ["struct", [["s", ["var", ["utf8"], 70000]], ["d", ["delim", ["struct", [["x", ["var", ["byte"], 400]], ["y", ["int", 9]]]], 2]], ["t", ["bool"]]]],
    ["delim", ["struct", [["items", ["var", ["delim", ["struct", [["b", ["var", ["byte"], 40]]]], 1], 20]], ["z", ["uint", 8, "sat"]]]], 4],
    ["union", [["big", ["fixed", ["byte"], 280]], ["small", ["uint", 8, "sat"]], ["txt", ["var", ["utf8"], 260]]]],
]


def _nested_delimited_specs() -> st.SearchStrategy:
    """Delimited inside delimited (2..3 levels), the nested object last, in the middle or in an array, with tight and slack extents."""
    prim = st.sampled_from([["uint", 8, "sat"], ["uint", 16, "sat"], ["bool"], ["int", 5], ["var", ["uint", 8, "sat"], 2], ["var", ["byte"], 3],
                            # octet arrays of several elements: a payload cut short by its header may end in front of, or inside, one of them
                            ["fixed", ["uint", 8, "sat"], 4], ["fixed", ["byte"], 3], ["var", ["utf8"], 5], ["uint", 8, "sat"]])
    slack = st.sampled_from([0, 0, 0, 1, 2])

    def wrap(inner: st.SearchStrategy) -> st.SearchStrategy:
        def build(t: typing.Any) -> typing.Any:
            nested, s_in, before, after, s_out, form = t
            member: typing.Any = ["delim", nested, s_in]
            if form == 1:
                member = ["fixed", member, 2]
            elif form == 2:
                member = ["var", member, 2]
            fields = [["b%d" % i, x] for i, x in enumerate(before)] + [["d", member]] + [["a%d" % i, x] for i, x in enumerate(after)]
            return ["delim", ["struct", fields], s_out]

        return st.tuples(inner, slack, st.lists(prim, max_size=2), st.lists(prim, max_size=2), slack, st.sampled_from([0, 0, 0, 1, 2])).map(build)

    leaf = st.lists(prim, min_size=1, max_size=2).map(lambda fs: ["struct", [["x%d" % i, x] for i, x in enumerate(fs)]])
    two = wrap(leaf)
    three = wrap(two.map(lambda d: ["struct", [["m", d], ["t", ["uint", 8, "sat"]]]]))
    return st.one_of(two, two, three)


def _cases(large: bool = False, nested: bool = False) -> st.SearchStrategy:
    specs = st.sampled_from(LARGE_SPECS) if large else gt.composites(gt.small_capacity(), max_leaves=8)
    if nested:
        specs = _nested_delimited_specs()

    def with_bytes(args: typing.Tuple[typing.Any, str, bool]) -> st.SearchStrategy:
        spec, kind, header = args
        fs = layout.freeze(spec)
        base = {"spec": st.just(spec), "kind": st.just(kind), "header": st.just(header), "zeros": st.integers(0, 8)}
        if kind == "random":
            mx = min(cc.max_bytes(fs, header and fs[0] == "delim"), 400 if large else 48)
            base["bytes"] = st.binary(max_size=2 * mx + 2).map(bytes.hex)
        elif kind == "ones":
            base["n"] = st.integers(0, 79)
        else:
            base["value"] = _large_values(fs) if large else gt.values(fs)
            if kind == "prefix":
                base["cut"] = st.integers(0, 4096)
            elif kind == "flip":
                base["flips"] = st.lists(st.integers(0, 1 << 16), min_size=1, max_size=3)
            elif kind == "header":
                base["which"] = st.integers(0, 7)
                base["new"] = st.integers(0, 1 << 10)
            elif kind == "inflate":
                base["extra"] = st.lists(st.tuples(st.integers(0, 1 << 10), st.integers(0, 255)), min_size=1, max_size=8)
                base["cut"] = st.integers(0, 4096)
                base["bump"] = st.one_of(st.none(), st.integers(0, 255))
        base["junk"] = st.binary(min_size=1, max_size=12).map(bytes.hex)
        base["tail"] = st.one_of(st.just(""), st.just(""), st.binary(min_size=1, max_size=12).map(bytes.hex), st.sampled_from(["ff" * 8, "00" * 8, "0100000077"]))
        return st.fixed_dictionaries(base)

    kinds = st.sampled_from(["random", "prefix", "prefix", "flip", "flip", "flip", "junk", "ones", "header", "header", "inflate", "inflate"])
    if nested:
        kinds = st.sampled_from(["header", "header", "inflate", "inflate", "inflate", "flip", "prefix", "junk"])
        return st.tuples(specs, kinds, st.sampled_from([True, True, False])).flatmap(with_bytes)
    return st.tuples(specs, kinds, st.booleans()).flatmap(with_bytes)


U8 = ["uint", 8, "sat"]
INNER = ["struct", [["a", ["uint", 3, "trunc"]], ["b", ["var", ["int", 9], 3]], ["", ["void", 2]], ["c", ["float", 16, "sat"]]]]
FUZZ_LIBRARY = [
    ["struct", [["a", U8]]],
    ["struct", [["a", ["bool"]], ["b", ["uint", 13, "trunc"]], ["c", ["int", 64]], ["d", ["float", 32, "trunc"]]]],
    ["struct", [["s", ["var", ["utf8"], 6]], ["t", ["uint", 7, "sat"]]]],
    ["struct", [["s", ["var", ["byte"], 5]], ["f", ["fixed", ["byte"], 3]], ["t", ["bool"]]]],
    ["union", [["a", U8], ["b", ["var", ["uint", 16, "sat"], 2]], ["c", INNER]]],
    ["delim", INNER, 2],
    ["struct", [["h", ["delim", INNER, 1]], ["tail", ["uint", 16, "sat"]]]],
    ["struct", [["x", ["uint", 5, "sat"]], ["arr", ["var", ["delim", ["struct", [["p", ["var", U8, 2]]]], 1], 3]], ["tail", ["int", 7]]]],
    ["union", [["u", ["delim", ["union", [["a", ["bool"]], ["b", ["var", ["utf8"], 4]]]], 0]], ["v", ["fixed", ["struct", [["q", ["uint", 12, "sat"]]]], 2]]]],
    ["delim", ["struct", [["n", ["delim", ["struct", [["m", ["delim", ["struct", [["z", ["var", ["bool"], 9]]]], 1]]]], 0]], ["k", U8]]], 3],
    ["struct", [["f", ["fixed", ["float", 64, "sat"], 2]], ["", ["void", 7]], ["g", ["var", ["fixed", ["uint", 3, "sat"], 2], 2]] if False else ["g", ["var", ["uint", 3, "sat"], 4]]]],
    ["struct", [["u", ["union", [["a", ["uint", 1, "sat"]], ["b", ["int", 2]], ["c", ["var", ["float", 16, "trunc"], 2]]]]], ["w", ["fixed", ["union", [["x", ["bool"]], ["y", U8]]], 2]]]],
]


def fuzz_decode(data: bytes) -> typing.Any:
    """byte 0: type from a fixed library; byte 1: flags (bit 0: with the top-level delimiter header); the rest: the payload."""
    if len(data) < 2:
        return None
    spec = FUZZ_LIBRARY[data[0] % len(FUZZ_LIBRARY)]
    return {"spec": spec, "kind": "random", "header": bool(data[1] & 1), "zeros": (data[1] >> 1) % 9, "bytes": data[2:].hex(), "junk": "ff00a5"}


def fuzz_corpus(ctx: Ctx) -> typing.List[bytes]:
    out = []
    for i, spec in enumerate(FUZZ_LIBRARY):
        fs = layout.freeze(spec)
        for header in (0, 1):
            if header and fs[0] != "delim":
                continue
            v = codec.decode(fs, b"", bool(header)) if not header else codec.decode(fs, b"\x00" * 64, True)
            out.append(bytes([i, header]) + codec.bits_to_bytes(codec.encode(fs, v, bool(header)).bits))
    return out


def parts(ctx: Ctx) -> typing.List[Part]:
    out = [Part("bytes", _cases(), check_bytes, weight=12), Part("nested-delimited", _cases(nested=True), check_bytes, weight=4),
           Part("large", _cases(large=True), check_bytes, weight=1, cost=12.0, min_examples=8)]
    if ctx.tier != "quick":
        out.append(Part("fuzz-bytes", None, check_bytes, weight=1, fuzz_decode=fuzz_decode, fuzz_corpus=fuzz_corpus))
    return out
