"""C03 - the model mirrors the source text, independent of formatting."""
from __future__ import annotations

import os
import typing

from hypothesis import strategies as st

from ..core import Info, Part, Ctx, Violation, HarnessError, require, guarded
from ..gen import defs
from ..gen.materialize import TextBuilder

ID = "C03"
TITLE = "The model mirrors the source text, independent of formatting"
RULE = (
    "(Constants may be initialised through earlier constants of their section, array capacities and @assert operands may name them; services may define a constant of one name with different values on both sides of --- and use it on both; plans may turn empty lines into lines of blanks.)  "
    "Cases are (definition model, 3 drawn formatting plans): messages and services, structures and unions, fields of primitive / array / "
    "composite types (dependencies emitted as separate files), paddings, constants with initialiser spellings (dec/hex/bin/oct, "
    "separators, chars, reals, small arithmetic), header / same-line / following-line comments, orphan comment blocks, neutral "
    "directives, @deprecated / @union / @sealed / @extent.  Each model is rendered canonically, with the drawn plans (LF/CRLF, blanks and "
    "tabs between tokens, trailing blanks, whitespace-only lines, empty lines and orphan comments before statements, `<` vs `<=` array "
    "forms, explicit `saturated`) and with every ending (no / one / two final newlines).  Oracles: fingerprint of the returned composite "
    "(kind, flags, extent, ordered fields / paddings / constants with normalized type, name, exact value, attached doc, header docs) == "
    "fingerprint computed from the model; equality across all renderings; canonical re-rendering of the returned model re-reads to an "
    "equal fingerprint.  Non-trivial = some rendering ends without a final newline on a statement or comment line, or the definition is "
    "a service, or >= 2 renderings differ in more than the final newline."
)
ASSUMPTIONS = [
    "docs are compared under doc-neutral formatting only (inserting an empty line between an attribute and its comment lines legitimately moves the comment); the comment rule modelled is the one the code documents and _unittest_comments pins down",
    "leading blanks before a statement are a syntax error in the grammar and are not generated",
]
BUDGET = {"quick": 350, "thorough": 7000}
# coverage-guided twins (thorough tier): part name -> executions per shard; see core.cover
COVER = {"mirror": 3000}

ROOTS = ["ns", "ns", "bytes_util", "int8lib", "booleans", "voidspace"]


def _read_main(ctx: Ctx, directory: str, what: str, root: str = "ns") -> typing.Any:
    import pydsdl

    types, _ = guarded(pydsdl.read_namespace, os.path.join(directory, root), [], what=what)
    mains = [t for t in types if t.short_name == "Main"]
    require(len(mains) == 1, "main-definition-count", 1, [str(t) for t in types])
    return mains[0]


def _diff(exp: typing.Any, got: typing.Any) -> str:
    """Short label of the first discrepancy between two fingerprints."""
    if exp["service"] != got["service"]:
        return "kind"
    if exp["deprecated"] != got["deprecated"]:
        return "deprecated"
    if len(exp["sections"]) != len(got["sections"]):
        return "sections"
    for se, sg in zip(exp["sections"], got["sections"]):
        for key in ("union", "extent"):
            if se[key] != sg[key]:
                return key
        if [f[:3] for f in se["fields"]] != [f[:3] for f in sg["fields"]]:
            if len(se["fields"]) > len(sg["fields"]):
                return "field-lost"
            if len(se["fields"]) < len(sg["fields"]):
                return "field-duplicated"
            return "field"
        if [c[:3] for c in se["constants"]] != [c[:3] for c in sg["constants"]]:
            if len(se["constants"]) > len(sg["constants"]):
                return "constant-lost"
            return "constant"
        if se["fields"] != sg["fields"] or se["constants"] != sg["constants"]:
            return "attribute-doc"
        if se.get("doc") != sg.get("doc"):
            return "header-doc"
    return "other"


def check_mirror(case: typing.Any, ctx: Ctx) -> Info:
    import pydsdl

    model = case["model"]
    ROOT = ROOTS[case.get("naming", 0) % len(ROOTS)]
    naming = case.get("naming", 0) // len(ROOTS)
    absolute = bool(case.get("absolute"))
    plans = [dict(defs.CANONICAL)]
    for f in case["formats"]:
        plans.append(f)
    # every way the text can end, on the canonical and on the first drawn plan
    for base in (defs.CANONICAL, case["formats"][0]):
        for final in ("none", "one", "two"):
            p = dict(base, final=final)
            if p not in plans:
                plans.append(p)
    d = ctx.scratch()
    try:
        texts = []
        observed = []
        expected = None
        for pi, fmt in enumerate(plans):
            tb = TextBuilder(d, ROOT, naming=naming, absolute=absolute)
            text = defs.render(model, fmt, tb)
            if pi == 0:
                tb.write()
                expected = defs.expected_fingerprint(model, tb.refs, ROOT, with_docs=True)
            with open(os.path.join(d, ROOT, "Main.1.0.dsdl"), "w", newline="") as f:
                f.write(text)
            texts.append(text)
            t = _read_main(ctx, d, "read:" + ("canonical" if pi == 0 else "formatted"), ROOT)
            got = defs.observed_fingerprint(t, with_docs=True)
            observed.append(got)
            if got != expected:
                label = _diff(expected, got)
                ends_bare = fmt["final"] == "none"
                sig = "mirror:%s%s" % (label, ":no-final-newline" if ends_bare and observed[0] == expected else "")
                raise Violation(sig, expected, got, "format %r text %r" % (fmt, text))
            # what is inside the field types - the element type of an array, the fields of a nested composite - is what the definitions
            # written for *this* case say (the same names T1, T2... carry other contents in other cases of this process)
            for sec, sm in zip(([t.request_type, t.response_type] if got["service"] else [t]), model["sections"]):
                want = [defs.deep_expected(it["type"]) for it in sm["items"] if it["k"] == "field"]
                have = [defs.deep_observed(f.data_type) for f in sec.fields if not isinstance(f, pydsdl.PaddingField)]
                require(want == have, "mirror:nested-type", want, have, "format %r text %r" % (fmt, text))
            # the accessor views agree with each other: attributes == fields followed by constants
            for sec in ([t.request_type, t.response_type] if got["service"] else [t]):
                names = [a.name for a in sec.attributes]
                require(names == [a.name for a in sec.fields] + [a.name for a in sec.constants], "attributes-order", "fields then constants", names)
        # canonical re-rendering of the returned model re-reads to an equal model
        t = _read_main(ctx, d, "read:canonical-again", ROOT)
        again_text = defs.canonical_text(t)
        with open(os.path.join(d, ROOT, "Main.1.0.dsdl"), "w", newline="") as f:
            f.write(again_text)
        t2 = _read_main(ctx, d, "read:rerendered", ROOT)
        got2 = defs.observed_fingerprint(t2, with_docs=True)
        if got2 != expected:
            raise Violation("rerender:" + _diff(expected, got2), expected, got2, "re-rendered text %r" % again_text)
    finally:
        ctx.cleanup(d)
    last_item_lines = [tx.rstrip("\r\n").split("\n")[-1] for tx in texts]
    bare_end = any(p["final"] == "none" and ln.strip() != "" for p, ln in zip(plans, last_item_lines))
    distinct_bodies = len({tx.rstrip("\r\n") for tx in texts})
    n_items = sum(len(s["items"]) for s in model["sections"])
    classes = ["service" if model["service"] else "message", "items:%s" % ("0" if n_items == 0 else "1-3" if n_items <= 3 else ">3")]
    for s in model["sections"]:
        classes.append("union" if s["union"] else "struct")
        classes.append("mode:" + s["mode"][0])
        if s["items"]:
            classes.append("last:" + s["items"][-1]["k"])
    if any(p["eol"] == "\r\n" for p in plans):
        classes.append("crlf")
    nontrivial = bare_end or model["service"] or distinct_bodies >= 2
    return Info(nontrivial, sorted(set(classes)), sample={"text": texts[1] if len(texts) > 1 else texts[0]})


def parts(ctx: Ctx) -> typing.List[Part]:
    cases = st.fixed_dictionaries(
        {
            "model": defs.definitions(),
            "formats": st.lists(defs.formats(), min_size=2, max_size=3),
            "naming": st.one_of(st.just(0), st.integers(0, 71)),  # root namespace name and naming scheme of the dependencies
            "absolute": st.booleans(),
        }
    )
    return [Part("mirror", cases, check_mirror, weight=1)]
