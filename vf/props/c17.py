"""C17 - errors and @print output are attributed to the right file and line."""
from __future__ import annotations

import os
import typing

from hypothesis import strategies as st

from ..core import Info, Part, Ctx, Violation, HarnessError, require, guarded

ID = "C17"
TITLE = "Errors and @print output are attributed to the right file and line"
RULE = (
    "(Neutral lines include statements that span 2..3 lines through raw line breaks in string literals; sections are sealed or delimited independently, extent faults sit in either section of a service; one fault sits in the file *name* - an unregulated port-ID - of target or dependency; @print directives without an expression are part of the expected stream.)  "
    "Cases are workspaces ns/T.1.0 -> D1.1.0 -> ... (dependency chain of depth 0..3; every file a list of neutral lines: empty, "
    "whitespace-only, comments, fields, constants, @assert true, the reference to the next file, string literals containing `#` and quotes; 0..120 leading lines; the target optionally a service so that the fault lies in the response section; LF or CRLF per file) with ONE fault of "
    "a drawn category at a drawn line of a drawn file - syntax error, undefined identifier / bad operand in @assert, @print, a constant "
    "initialiser or an array capacity, failed @assert, unknown / misplaced / duplicated directive, second `---`, errors on a dependency's attributes / constants, bad attribute (reserved "
    "name, out-of-range constant, named void, bad width), undefined type, and the definition-level faults missing @sealed, duplicate "
    "attribute names, union arity - or, separately, 1..5 uniquely numbered @print directives spread over the files.  Oracles: error.path "
    "is the faulty file; a statement-level fault reports the 1-based line of the faulty statement; a definition-level fault reports no "
    "line or a line of that file holding a participating statement; read through read_files with the chain in lookup position every "
    "@print is delivered exactly once with its own file and line.  Non-trivial = fault or print in a dependency, or preceded by >= 2 "
    "different kinds of neutral lines, or an attribute fault followed by comment lines."
)
ASSUMPTIONS = [
    "print multiplicity is asserted where every definition is read once (targets that are not referenced by other targets); read_namespace re-reads a target that sorts before its referrer, which the statement's 'per evaluated directive' does not clearly forbid",
    "references that differ from an existing name only by letter case are not a fault category here (the library deliberately names the clashing file)",
]
BUDGET = {"quick": 500, "thorough": 10000}
# coverage-guided twins (thorough tier): part name -> executions per shard; see core.cover
COVER = {"fault": 2500, "prints": 1500}

ROOT = "ns"

# category -> (lines to insert, index of the offending line within them, statement-level?)
STATEMENT_FAULTS: typing.Dict[str, typing.Tuple[typing.List[str], int]] = {
    "syntax:garbage": (["%%% what"], 0),
    "syntax:extra-token": (["uint8 a b"], 0),
    "syntax:leading-blank": (["  uint8 lead"], 0),
    "syntax:unclosed-bracket": (["uint8[3 arr"], 0),
    "syntax:bad-literal": (["@assert 0x == 1"], 0),
    "expr:undefined-identifier": (["@assert FOO == 1"], 0),
    "expr:bad-operand-print": (["@print 1 + true"], 0),
    "expr:bad-operand-const": (["uint8 BADC = true + 1"], 0),
    "expr:capacity-not-integer": (["uint8[1/2] arr"], 0),
    "expr:capacity-bool": (["uint8[true] arr"], 0),
    "expr:division-by-zero": (["@print 1 / 0"], 0),
    "expr:empty-set": (["@print {}"], 0),
    "assert:failed": (["@assert 1 == 2"], 0),
    "assert:non-boolean": (["@assert 1"], 0),
    "directive:unknown": (["@foo"], 0),
    "directive:unknown-with-expr": (["@bar 1"], 0),
    "directive:union-after-attribute": (["uint8 before_union", "@union"], 1),
    "directive:deprecated-after-attribute": (["uint8 before_dep", "@deprecated"], 1),
    "directive:sealed-with-expression": (["@sealed 1"], 0),
    "directive:assert-without-expression": (["@assert"], 0),
    "marker:second": (["---", "@sealed", "---"], 2),
    "attribute:reserved-name": (["uint8 true"], 0),
    "attribute:reserved-name-const": (["uint8 int8 = 1"], 0),
    "attribute:constant-out-of-range": (["uint8 BIG = 256"], 0),
    "attribute:constant-not-integer": (["int8 HALF = 1/2"], 0),
    "attribute:named-void": (["void8 named"], 0),
    "attribute:bad-width": (["uint65 wide"], 0),
    "attribute:bad-float": (["float17 f"], 0),
    "attribute:truncated-signed": (["truncated int8 ti"], 0),
    "attribute:zero-capacity": (["uint8[0] zero"], 0),
    "attribute:scalar-utf8": (["utf8 s"], 0),
    "expr:dependency-attribute": (["@assert {DEP}.NOPE == 1"], 0),
    "expr:dependency-constant-operand": (["@print {DEP}.K + true"], 0),
    "expr:offset-compared-with-scalar": (["@assert _offset_ == 1"], 0),
    "expr:string-with-hash": (["@assert '#' + \"a#b\" == 1  # tail"], 0),
    # in a union the offset between fields is not defined, so once `_offset_` has been looked at no further field can be added: the fault
    # is the first field after that (the library adds a field to the layout later than it parses it - at the next statement or blank line)
    "union:field-after-offset": (["uint8 ua", "uint16 ub", "@assert _offset_.count >= 1", "uint32 uc"], 3),
    "union:field-after-offset-in-constant": (["uint8 ua", "uint16 ub", "uint64 SIZE_OF_UNION = _offset_.max / 8", "", "uint64[<=2] uc"], 4),
    "type:undefined": (["Nope.1.0 missing"], 0),
    "type:undefined-in-array": (["ns.Nope.2.3[<=2] missing"], 0),
}
ATTRIBUTE_DEFERRED = {"attribute:reserved-name", "attribute:reserved-name-const", "attribute:constant-out-of-range", "attribute:constant-not-integer", "attribute:named-void"}
DEFINITION_FAULTS = ["definition:missing-sealed", "definition:duplicate-names", "definition:union-arity", "definition:extent-too-small", "definition:extent-unaligned", "definition:unregulated-port"]
EXTENT_FAULTS = {"definition:extent-too-small": "@extent 8", "definition:extent-unaligned": "@extent 1234567"}


def _neutral() -> st.SearchStrategy:
    return st.sampled_from(
        ["", "", " ", "\t ", "# comment", "#", "  # indented comment", "FIELD", "FIELD", "CONST", "@assert true", "@print", "STRCONST", "MULTILINE", "MULTILINE3", "@assert '#' != \"a'b\"  # not a comment start inside quotes",
         "# comment with a quote ' and a hash #", "@assert {1, 2}.count == 2",
         "# form\x0cfeed, vertical\x0btab, \x1c\x1d\x1e, NEL \x85, LS \u2028 and PS \u2029 are ordinary comment characters",
         "@assert 'a\x0cb\u2028c' != \"\x85\"  # neither do they end a line inside a string literal"]
    )


def file_names(depth: int) -> typing.List[str]:
    return ["T.1.0.dsdl"] + ["D%d.1.0.dsdl" % i for i in range(1, depth + 1)]


def build_files(case: typing.Any) -> typing.Tuple[typing.Dict[str, str], typing.Optional[typing.Dict[str, typing.Any]], typing.List[typing.Tuple[str, int, str]]]:
    """Returns ({file name: text}, fault description with expected location, [(file, line, printed text)])."""
    depth = case["depth"]
    names = file_names(depth)
    fault = case.get("fault")
    texts: typing.Dict[str, str] = {}
    expect: typing.Optional[typing.Dict[str, typing.Any]] = None
    prints: typing.List[typing.Tuple[str, int, str]] = []
    counter = 0
    target_disk_name = names[0]
    for fi, fn in enumerate(names):
        spec = case["files"][fi]
        lines: typing.List[str] = []
        kinds: typing.List[str] = []
        body = list(spec["neutral"])
        ref_at = spec["ref_pos"] % (len(body) + 1)
        seal_at = spec["seal_pos"] % (len(body) + 1)
        is_fault_file = fault is not None and fault["file"] % len(names) == fi
        cat = fault["cat"] if is_fault_file else None
        fault_at = (fault["pos"] % (len(body) + 1)) if is_fault_file else -1
        print_positions = {p["pos"] % (len(body) + 1): p for p in case.get("prints", []) if p["file"] % len(names) == fi}
        union_arity = cat == "definition:union-arity"
        union_top = union_arity or (cat is not None and cat.startswith("union:"))
        for k in range(spec.get("lead", 0)):
            lines.append("" if k % 3 == 1 else "# lead line %d" % k)
            kinds.append("empty" if k % 3 == 1 else "comment")
        if union_top:
            lines.append("@union")
            kinds.append("stmt")
        lines.append("uint8 K = %d" % (fi + 1))
        kinds.append("stmt")
        dep_ref = names[fi + 1][: -len(".dsdl")] if fi + 1 < len(names) else "Nope.1.0"
        split_at = None
        if fi == 0 and spec.get("split") is not None and cat not in ("marker:second", "definition:union-arity", "definition:missing-sealed") and cat != "directive:union-after-attribute" and not union_top:
            split_at = spec["split"] % (len(body) + 1)
            seal_at = max(seal_at, split_at)
        # serialization mode of each section: @sealed somewhere, or @extent after the section's last attribute.  An extent fault
        # makes the section that holds the fault position delimited with a bad extent; the *other* section of a service may well
        # carry an @extent of its own (a valid one).
        modes = list(spec.get("modes", ["sealed", "sealed"]))
        if cat in ("marker:second", "definition:missing-sealed"):
            modes = ["sealed", "sealed"]
        mode_lines = ["@extent %d" % (80000 * (len(names) - fi)) if m == "extent" else "@sealed" for m in modes]  # room for the nested ones
        mode_kinds = ["stmt", "stmt"]
        if cat in EXTENT_FAULTS:
            faulty_section = 1 if (split_at is not None and fault_at >= split_at) else 0
            mode_lines[faulty_section] = EXTENT_FAULTS[cat]
            mode_kinds[faulty_section] = "participant"
        last_section = 1 if split_at is not None else 0
        for i in range(len(body) + 1):
            if split_at is not None and i == split_at:
                lines.append(mode_lines[0])
                kinds.append(mode_kinds[0])
                lines.append("---")
                kinds.append("stmt")
            if i == fault_at and cat in EXTENT_FAULTS:
                lines.append("uint64 longer_than_the_extent")
                kinds.append("stmt")
            if i == fault_at and cat in STATEMENT_FAULTS:
                flines, off = STATEMENT_FAULTS[cat]
                for j, fl in enumerate(flines):
                    lines.append(fl.replace("{DEP}", dep_ref))
                    kinds.append("fault" if j == off else "stmt")
            if i == fault_at and cat == "definition:duplicate-names":
                lines.append("uint8 dup_name")
                kinds.append("participant")
                lines.append("# between the duplicates")
                kinds.append("comment")
                lines.append("int16 dup_name")
                kinds.append("participant")
            if i in print_positions:
                counter += 1
                token = 1000 * (fi + 1) + counter
                lines.append("@print %d" % token)
                kinds.append("stmt")
                prints.append((fn, len(lines), str(token)))
            if i == ref_at and fi + 1 < len(names) and not union_arity:
                lines.append("%s dep_field" % names[fi + 1][: -len(".dsdl")])
                kinds.append("stmt")
            if i == seal_at and cat != "definition:missing-sealed" and not (cat == "marker:second") and mode_lines[last_section] == "@sealed":
                lines.append("@sealed")
                kinds.append("stmt")
            if i < len(body):
                b = body[i]
                if b == "FIELD":
                    if union_arity and any(k == "unionfield" for k in kinds):
                        b = "# (a second variant would be here)"
                        kinds.append("comment")
                    else:
                        counter += 1
                        b = "uint%d f%d" % (1 + counter % 64, counter)
                        kinds.append("unionfield" if union_arity else "stmt")
                elif b == "CONST":
                    counter += 1
                    b = "uint16 C%d = %d" % (counter, counter)
                    kinds.append("stmt")
                elif b in ("MULTILINE", "MULTILINE3"):
                    # a string literal may contain raw line breaks: the statement continues on the following line(s), which are
                    # lines of the file like any other
                    counter += 1
                    parts_ = ["@assert 'first line", "second line' != \"x%d\"" % counter] if b == "MULTILINE" else ["uint8 M%d = 7 + {'a" % counter, "b", "c'}.count  # three lines"]
                    for extra_line in parts_[:-1]:
                        lines.append(extra_line)
                        kinds.append("stmt")
                    b = parts_[-1]
                    kinds.append("stmt")
                elif b == "STRCONST":
                    counter += 1
                    b = "uint8 S%d = '#'  # a hash inside quotes" % counter
                    kinds.append("stmt")
                elif b.startswith("@"):
                    kinds.append("stmt")
                    if b.split("#")[0].strip() == "@print":
                        prints.append((fn, len(lines) + 1, ""))  # a directive without an expression prints the empty string
                elif b.strip().startswith("#"):
                    kinds.append("comment")
                elif b == "":
                    kinds.append("empty")
                else:
                    kinds.append("ws")
                lines.append(b)
        if union_arity and not any(k == "unionfield" for k in kinds):
            lines.append("uint8 only_variant")
            kinds.append("unionfield")
        if cat == "marker:second":
            lines.append("@sealed")
            kinds.append("stmt")
        if mode_lines[last_section] != "@sealed":
            lines.append(mode_lines[last_section])  # @extent goes after the last attribute of its section
            kinds.append(mode_kinds[last_section])
        eol = "\r\n" if spec["crlf"] else "\n"
        if cat == "definition:unregulated-port":
            # the fault sits in the file *name*: a fixed port-ID outside the regulated range of a vendor namespace (the flag that
            # would allow it is off); the text is fine, references to the type do not mention the port-ID
            fn = ("500." if split_at is not None else "8000.") + fn
        if fi == 0:
            target_disk_name = fn
        texts[fn] = eol.join(lines) + (eol if spec["final_newline"] else "")
        if is_fault_file:
            assert cat is not None
            if cat in STATEMENT_FAULTS:
                line = kinds.index("fault") + 1
                before = set(kinds[: line - 1]) - {"stmt"}
                after = kinds[line:]
                expect = {"file": fn, "cat": cat, "line": line, "statement": True, "kinds_before": sorted(before),
                          "followed_by_comment": bool(after) and after[0] == "comment"}
            else:
                participants = [i + 1 for i, k in enumerate(kinds) if k in ("participant", "unionfield")] + ([spec.get("lead", 0) + 1] if union_arity else [])
                expect = {"file": fn, "cat": cat, "lines": sorted(set(participants)), "statement": False, "kinds_before": [], "followed_by_comment": False}
    if expect is not None:
        expect["target"] = target_disk_name
    return texts, expect, prints


def _write(ctx: Ctx, texts: typing.Dict[str, str]) -> str:
    d = ctx.scratch()
    os.makedirs(os.path.join(d, ROOT))
    for fn, text in texts.items():
        with open(os.path.join(d, ROOT, fn), "w", newline="") as f:
            f.write(text)
    return d


def check_fault(case: typing.Any, ctx: Ctx) -> Info:
    import pydsdl

    texts, expect, _ = build_files(case)
    assert expect is not None
    d = _write(ctx, texts)
    try:
        root = os.path.join(d, ROOT)
        if case.get("earlier_revision"):
            # the same files held other text a moment ago - the same lines in another order, hence the same size - and were read then;
            # the edit kept the timestamps (cp -p, rsync -t, a coarse clock).  What is reported is about the text that is there now.
            import pydsdl as _p

            for fn, text in texts.items():
                path = os.path.join(root, fn)
                stamp = os.stat(path)
                eol = "\r\n" if "\r\n" in text else "\n"
                lines_ = text.split(eol)
                k = case["earlier_revision"] % max(1, len(lines_))
                older = eol.join(lines_[k:] + lines_[:k])
                if len(older.encode()) == len(text.encode()) and older != text:
                    with open(path, "w", newline="") as f:
                        f.write(older)
                    os.utime(path, ns=(stamp.st_atime_ns, stamp.st_mtime_ns))
            try:
                _p.read_namespace(root, [])
            except _p.InvalidDefinitionError:
                pass
            except Exception:  # pylint: disable=broad-except
                pass  # (whatever the scrambled revision does is not this case's business)
            for fn, text in texts.items():
                path = os.path.join(root, fn)
                stamp = os.stat(path)
                with open(path, "w", newline="") as f:
                    f.write(text)
                os.utime(path, ns=(stamp.st_atime_ns, stamp.st_mtime_ns))
        if case["api"] == "namespace":
            res, ex = guarded(pydsdl.read_namespace, root, [], allowed=(pydsdl.InvalidDefinitionError,), what="read_namespace")
        else:
            res, ex = guarded(pydsdl.read_files, [os.path.join(root, expect["target"])], [root], allowed=(pydsdl.InvalidDefinitionError,), what="read_files")
        where = "fault %s at %s:%s\n" % (expect["cat"], expect["file"], expect.get("line", expect.get("lines"))) + "\n".join(
            "--- %s\n%s" % (fn, tx) for fn, tx in texts.items()
        )
        require(ex is not None, "fault-not-reported", expect["cat"], "accepted", where)
        in_dep = expect["file"] != expect["target"]
        suffix = ":dependency" if in_dep else ""
        got_path = os.path.realpath(str(ex.path)) if ex.path else None
        want_path = os.path.realpath(os.path.join(root, expect["file"]))
        require(got_path == want_path, "error-path" + suffix, expect["file"], str(ex.path), where + "\n" + str(ex))
        if expect["statement"]:
            if ex.line is not None:
                sig = "error-line"
                if expect["cat"] in ATTRIBUTE_DEFERRED:
                    sig = "error-line:attribute-committed-late"
                require(ex.line == expect["line"], sig + suffix, expect["line"], ex.line, where + "\n" + str(ex))
            else:
                # the statement constrains *reported* line numbers; a fault located only at file level is counted, not flagged
                ctx.extra["statement_faults_without_line"] = ctx.extra.get("statement_faults_without_line", 0) + 1
        else:
            if ex.line is not None:
                require(ex.line in expect["lines"], "error-line:definition-level" + suffix, "None or one of %s" % expect["lines"], ex.line, where + "\n" + str(ex))
    finally:
        ctx.cleanup(d)
    classes = ["line-reported" if ex.line is not None else "no-line", "cat:" + expect["cat"].split(":")[0], "api:" + case["api"], "in-dependency" if in_dep else "in-target", "depth:%d" % case["depth"]]
    if any(f["crlf"] for f in case["files"]):
        classes.append("crlf")
    nontrivial = in_dep or len(expect["kinds_before"]) >= 2 or (expect["cat"].startswith("attribute:") and expect["followed_by_comment"])
    return Info(bool(nontrivial), classes, sample=where)


def check_prints(case: typing.Any, ctx: Ctx) -> Info:
    import pydsdl

    texts, _, prints = build_files(case)
    d = _write(ctx, texts)
    try:
        root = os.path.join(d, ROOT)
        got: typing.List[typing.Tuple[str, int, str]] = []

        def handler(path: typing.Any, line: int, text: str) -> None:
            got.append((os.path.basename(str(path)), line, text))

        res, _ = guarded(pydsdl.read_files, [os.path.join(root, "T.1.0.dsdl")], [root], print_output_handler=handler, what="read_files")
        where = "\n".join("--- %s\n%s" % (fn, tx) for fn, tx in texts.items())
        # directives without an expression print the empty string: they cannot be told apart by their text, so their lines are
        # compared as multisets first and their files afterwards
        bare_got = sorted(g for g in got if g[2] == "")
        bare_want = sorted(p for p in prints if p[2] == "")
        if sorted(g[1] for g in bare_got) != sorted(w[1] for w in bare_want):
            fewer = len(bare_got) < len(bare_want)
            more = len(bare_got) > len(bare_want)
            raise Violation("print-lost:bare" if fewer else "print-duplicated:bare" if more else "print-line:bare", bare_want, bare_got, where)
        if bare_got != bare_want:
            in_dep_bare = any(w[0] != "T.1.0.dsdl" for w in bare_want)
            raise Violation("print-path" + (":dependency" if in_dep_bare else ""), bare_want, bare_got, where)
        prints = [p for p in prints if p[2] != ""]
        numbered = sorted(g for g in got if g[2] != "")
        want = sorted(prints)
        if numbered != want:
            by_text_got = {}
            for g in numbered:
                by_text_got.setdefault(g[2], []).append(g)
            problems: typing.List[Violation] = []
            for w in want:
                gs = by_text_got.get(w[2], [])
                in_dep = w[0] != "T.1.0.dsdl"
                sfx = ":dependency" if in_dep else ""
                if len(gs) < 1:
                    problems.append(Violation("print-lost" + sfx, w, gs, where))
                    continue
                if len(gs) != 1:
                    problems.append(Violation("print-duplicated" + sfx, w, gs, where))
                if any(g[1] != w[1] for g in gs):
                    problems.append(Violation("print-line" + sfx, w, gs, where))
                if any(g[0] != w[0] for g in gs):
                    problems.append(Violation("print-path" + sfx, w, gs, where))
            extra = [g for g in numbered if g[2] not in {w[2] for w in want}]
            if extra:
                problems.append(Violation("print-unexpected", want, extra, where))
            # report the problem that is not the recorded path finding first, so that it cannot hide behind it
            problems.sort(key=lambda v: v.signature == "print-path:dependency")
            if problems:
                raise problems[0]
            require(False, "print-stream", want, numbered, where)
    finally:
        ctx.cleanup(d)
    in_dep = any(p[0] != "T.1.0.dsdl" for p in prints)
    return Info(in_dep or len(prints) >= 2, ["prints:%d" % len(prints), "in-dependency" if in_dep else "target-only", "depth:%d" % case["depth"]], sample=where)


def _file_spec() -> st.SearchStrategy:
    return st.fixed_dictionaries(
        {
            "neutral": st.lists(_neutral(), max_size=8),
            "modes": st.lists(st.sampled_from(["sealed", "sealed", "extent"]), min_size=2, max_size=2),
            "lead": st.sampled_from([0, 0, 0, 3, 9, 10, 98, 99, 120]),
            "split": st.one_of(st.none(), st.none(), st.integers(0, 20)),
            "ref_pos": st.integers(0, 20),
            "seal_pos": st.integers(0, 20),
            "crlf": st.booleans(),
            "final_newline": st.booleans(),
        }
    )


def _fault_cases() -> st.SearchStrategy:
    cats = st.one_of(st.sampled_from(sorted(STATEMENT_FAULTS)), st.sampled_from(sorted(STATEMENT_FAULTS)), st.sampled_from(sorted(ATTRIBUTE_DEFERRED)), st.sampled_from(DEFINITION_FAULTS))
    return st.integers(0, 3).flatmap(
        lambda depth: st.fixed_dictionaries(
            {
                "depth": st.just(depth),
                "files": st.lists(_file_spec(), min_size=depth + 1, max_size=depth + 1),
                "fault": st.fixed_dictionaries({"file": st.integers(0, 3), "pos": st.integers(0, 20), "cat": cats}),
                "api": st.sampled_from(["namespace", "files"]),
                "earlier_revision": st.sampled_from([0, 0, 0, 1, 2, 5]),
            }
        )
    )


def _print_cases() -> st.SearchStrategy:
    return st.integers(0, 3).flatmap(
        lambda depth: st.fixed_dictionaries(
            {
                "depth": st.just(depth),
                "files": st.lists(_file_spec(), min_size=depth + 1, max_size=depth + 1),
                "prints": st.lists(st.fixed_dictionaries({"file": st.integers(0, 3), "pos": st.integers(0, 20)}), min_size=1, max_size=5, unique_by=lambda p: (p["file"] % (depth + 1), p["pos"])),
            }
        )
    )


def parts(ctx: Ctx) -> typing.List[Part]:
    return [Part("fault", _fault_cases(), check_fault, weight=3), Part("prints", _print_cases(), check_prints, weight=1)]
