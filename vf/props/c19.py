"""C19 - definitions outside the dependency closure cannot influence the result."""
from __future__ import annotations

import copy
import os
import typing

from hypothesis import strategies as st

from ..core import Info, Part, Ctx, Violation, HarnessError, require, guarded
from .. import core
from ..gen import workspace as wsp
from . import _nsutil as nu
from . import c09

ID = "C19"
TITLE = "Definitions outside the dependency closure cannot influence the result"
RULE = (
    "(Replacements include valid definitions that merely say something else - other extent, sealing, kind; workspaces may carry fixed port-IDs with an unreferenced definition elsewhere on the port-ID of a target, an unsealed member next to an unreferenced delimited sibling minor version, several root directories of one name, the namesake of a self-referential / cyclic definition, a definition that a dangling dotted reference would mean if it were relative.)  "
    "Cases are (workspace, what is read, disturbance): a workspace of <= 8 definitions in 2..3 root namespaces (optionally with one of the "
    "C09 faults inside the closure, so that the outcome is an error), read with read_namespace(root, all roots as lookup) or read_files("
    "target subset); the disturbance replaces the text of 1..2 definitions that the reference model places outside the closure - in a "
    "lookup root, or for read_files also in the targets' own root - by garbage, a definition violating a static rule, a failing @assert, "
    "an @print, a reference to a missing type, an empty file; and / or adds new well-named files to lookup directories whose contents "
    "collide with other lookup definitions (same fixed port-ID, another kind / sealing / extent under the same major version).  Oracle "
    "(metamorphic): the canonical outcome (fingerprints and order of direct / transitive, or exception class + path + line) and the "
    "complete print stream are identical before and after, and the print handler never sees a disturbed file.  A malformed file *name* "
    "added to a lookup directory may surface, but only as InvalidDefinitionError.  Non-trivial = a disturbed file shares a name (another "
    "version) or a namespace directory with a definition in the closure."
)
ASSUMPTIONS = ["the closure is computed by the reference model of references (C09 checks that model against the implementation)"]
BUDGET = {"quick": 300, "thorough": 6000}

REPLACEMENTS = [
    "%%% @@@ garbage \x00\n",
    "",
    "uint65 x\n@sealed\n",
    "@union\nuint8 only\n@sealed\n",
    "uint8 a\n",
    "uint8 a\nuint8 a\n@sealed\n",
    "@assert false\n@sealed\n",
    "@print 424242\n@sealed\n",
    "@print 424242\n@assert 1 / 0 == 1\n",
    "nope.Missing.9.9 x\n@sealed\n",
    "uint8 true\n@sealed\n",
    "@deprecated\n@deprecated\n@sealed\n",
    "@extent 7\n",
    "(((((((((\n",
    "uint8 X = 1e5000\n@sealed\n",
    "@sealed\n---\n@sealed\n---\n",
    # perfectly valid definitions that merely say something else than the original (another extent, sealing, kind, layout)
    "@sealed\n",
    "@extent 512\n",
    "uint8 a\n@extent 1024 * 8\n",
    "@sealed\n---\n@sealed\n",
    "@union\nuint8 a\nuint16 b\n@extent 64\n",
    "@deprecated\nuint64[<=9] z\n@sealed\n",
    "uint8 a\n@extent 48 * 8\n---\n@extent 40 * 8\n",
    # not text at all (written as bytes)
    b"\xff\xfe\x00garbage\n@sealed\n",
    b"uint8 a # \xb0\n@sealed\n",
    b"\x80\x81\x82",
]


def _write_replacement(path: str, content: typing.Any) -> None:
    if isinstance(content, bytes):
        with open(path, "wb") as f:
            f.write(content)
    else:
        with open(path, "w") as f:
            f.write(content)


# extra files for a lookup root: (relative file name under the root, text) - they collide with each other in every
# cross-definition rule but are referenced by nobody
EXTRA_SETS = [
    [("6200.ExtraA.1.0.dsdl", "@sealed\n"), ("6200.ExtraB.1.0.dsdl", "@sealed\n")],
    [("ExtraC.1.0.dsdl", "@sealed\n"), ("ExtraC.1.1.dsdl", "@sealed\n---\n@sealed\n")],
    [("ExtraD.1.0.dsdl", "uint8 a\n@sealed\n"), ("ExtraD.1.1.dsdl", "uint8 a\n@extent 64\n")],
    [("6300.ExtraE.1.0.dsdl", "@sealed\n"), ("ExtraE.1.1.dsdl", "@sealed\n")],
    [("sub/ExtraF.2.0.dsdl", "uint8[2] a\n@sealed\n"), ("sub/ExtraF.2.1.dsdl", "uint8[3] a\n@sealed\n")],
    [("99999.ExtraG.1.0.dsdl", "@sealed\n")],
    [("ExtraH.0.0.dsdl", "@sealed\n")],
]
PRE_EXTRA_SETS = [
    [("Legacy.1.0.dsdl", "uint8 a\n@sealed\n"), ("Legacy.1.0.uavcan", "uint8 a\n@sealed\n")],
    [("sub/Legacy.2.1.uavcan", "@sealed\n"), ("sub/Legacy.2.1.dsdl", "@sealed\n")],
    [("6400.Ported.1.0.dsdl", "@sealed\n"), ("Ported.1.1.dsdl", "@sealed\n")],
    [("Twice.1.0.dsdl", "@sealed\n"), ("7000.Twice.1.0.dsdl", "@sealed\n")],
]
MALFORMED_NAMES = ["Bad.x.y.dsdl", "Bad.dsdl", "a.b.Bad.1.0.dsdl"]


def _outcome(fn: typing.Callable[..., typing.Any], ws: typing.Any, d: str, prints: typing.List[typing.Any]) -> typing.Any:
    import pydsdl

    try:
        with core.ordinary_stack():
            res = fn(lambda p, l, t: prints.append((os.path.relpath(os.path.realpath(str(p)), os.path.realpath(d)), l, t)))
    except pydsdl.InvalidDefinitionError as ex:
        p = os.path.relpath(os.path.realpath(str(ex.path)), os.path.realpath(d)) if ex.path else None
        return ["error", type(ex).__name__, p, ex.line, ex.text.replace(os.path.realpath(d), "<ws>").replace(d, "<ws>")]
    if isinstance(res, tuple):
        return ["ok", nu.canonical(ws, res[0], d), nu.canonical(ws, res[1], d)]
    return ["ok", nu.canonical(ws, res, d)]


def check_isolation(case: typing.Any, ctx: Ctx) -> Info:
    import pydsdl

    ws = case["ws"]
    fault_desc = None
    if case.get("fault") is not None:
        ws, fault_desc = c09.inject_fault(ws, case["fault"])
        if fault_desc is not None and fault_desc["kind"] == "duplicate-in-second-root":
            ws, fault_desc = copy.deepcopy(case["ws"]), None  # needs an extra root; not used here
    ws = copy.deepcopy(ws)
    defs = ws["defs"]
    shape = case.get("shape") or {}
    if shape.get("ports"):
        # fixed port-IDs, one per (name, major version) so that the workspace itself obeys the cross-definition rules
        groups: typing.Dict[typing.Any, int] = {}
        for i, x in enumerate(defs):
            key = (wsp.full_name(ws, x), x["version"][0])
            groups.setdefault(key, 100 + len(groups))
            if (shape["ports"] >> (groups[key] % 16)) & 1:
                x["port"] = groups[key]
    sibling_index = None
    if shape.get("unsealed") is not None and fault_desc is None:
        # a member of the workspace forgets its @sealed / @extent (if it is in the closure the outcome is an error whose text
        # pydsdl composes); another minor version of the same name - delimited, valid, referenced by nobody - sits next to it
        ui = shape["unsealed"] % len(defs)
        u = defs[ui]
        if not u["service"] and "text" not in u:
            u["text"] = "\n".join(wsp.body(ws, ui, u)) + "\n"
            minors = {x["version"][1] for x in defs if (wsp.full_name(ws, x), x["version"][0]) == (wsp.full_name(ws, u), u["version"][0])}
            free = [m for m in range(256) if m not in minors and (u["version"][0], m) != (0, 0)]
            sib = dict(u, version=[u["version"][0], free[shape.get("minor", 0) % len(free)]], refs=[], text="uint8 a\n@extent %d * 8\n" % (40 + shape.get("minor", 0) % 7))
            defs.append(sib)
            sibling_index = len(defs) - 1
    deep_host = None
    deep = case.get("deep")
    if deep is not None and fault_desc is None and not ws.get("twins"):
        # a further target `Dp0` at the head of a reference chain of the drawn length (none, a few, several dozen links), whose last
        # member *spells* the names and versions of the definitions outside the closure - inside string literals, where they are no
        # references at all.  Nothing that finds its dependencies by looking at the text instead of parsing it may be misled by that,
        # however deep in the chain it happens.
        n0 = len(defs)
        if case["mode"] == "namespace":
            host_root = case["root"] % len(ws["roots"])
            pre_targets = wsp.defs_under_root(ws, host_root)
        else:
            pre_targets = sorted({t_ % n0 for t_ in case["targets"]})
            host_root = defs[pre_targets[0]]["root"]
        pre_closure = wsp.closure(ws, pre_targets)
        outside_pre = [i for i in range(n0) if i not in pre_closure]
        base = {"root": host_root, "ns": ["deepchain"], "version": [1, 0], "port": None, "service": False, "sealed": True, "size": 1, "deprecated": False, "legacy": False}
        deep_host = len(defs)
        for k in range(deep["len"] + 1):
            refs = [{"to": deep_host + k + 1, "absolute": bool(deep.get("absolute")), "array": None, "expr": False}] if k < deep["len"] else []
            defs.append(dict(base, short="Dp%d" % k, refs=refs))
        tail_lines = wsp.body(ws, len(defs) - 1, defs[-1])
        for i in outside_pre[:5]:
            x = defs[i]
            tail_lines.append("@assert '%s.%d.%d' != \"see also %s.%d.%d[<=2] and others\"" % (wsp.full_name(ws, x), x["version"][0], x["version"][1], x["short"], x["version"][0], x["version"][1]))
        defs[-1]["text"] = "\n".join(tail_lines + ["@sealed"]) + "\n"
    n = len(defs)
    d = ctx.scratch()
    try:
        wsp.write(ws, d)
        twin_files = []
        for tw in ws.get("twins", []):
            # (a C09 fault may come with a namesake of the faulty definition in a further root directory of the same name)
            twin_files.append(wsp.rel_path(ws, tw))
            os.makedirs(os.path.dirname(os.path.join(d, twin_files[-1])), exist_ok=True)
            with open(os.path.join(d, twin_files[-1]), "w") as f:
                f.write(tw["text"])
        roots = [os.path.join(d, wsp.root_dir(ws, i)) for i in range(len(ws["roots"]))]
        mode = case["mode"]
        forced_targets = None
        if twin_files:
            # the namesake stays outside the closure only as long as nothing but the self / cyclic reference names it: the faulty
            # definition itself is the one target
            mode, forced_targets = "files", [fault_desc["edges"][0][1]]
        if mode == "namespace":
            ri = case["root"] % len(roots)
            targets = wsp.defs_under_root(ws, ri)

            def run(handler: typing.Any) -> typing.Any:
                return pydsdl.read_namespace(roots[ri], roots, handler, True)

        else:
            targets = []
            n_drawn = deep_host if deep_host is not None else n  # (the chain added above is not among the drawn targets)
            for t_ in case["targets"]:
                if t_ % n_drawn not in targets:
                    targets.append(t_ % n_drawn)
            if forced_targets is not None:
                targets = forced_targets
            elif deep_host is not None:
                targets = [t_ for t_ in targets if t_ < deep_host] + [deep_host]
            paths = [os.path.join(d, wsp.rel_path(ws, defs[i])) for i in targets]

            def run(handler: typing.Any) -> typing.Any:
                return pydsdl.read_files(paths, roots, None, handler, True)

        lookup_only_roots = [i for i in range(len(roots)) if all(defs[t]["root"] != i for t in targets) and not (mode == "namespace" and i == ri)]
        pre_added: typing.List[str] = []
        ported = [i for i in targets if defs[i].get("port") is not None]
        port_twin = case.get("pre_extra") is not None and bool(ported) and case["pre_extra"]["set"] % 2 == 1
        # where unreferenced files may be planted: roots that hold no target; for read_files (where the other definitions of the
        # targets' own roots are outside the closure as well) a port twin may also sit right next to the targets
        plant_roots = list(lookup_only_roots)
        if port_twin and mode == "files" and case["pre_extra"]["root"] % 2:
            plant_roots = sorted({defs[t]["root"] for t in targets})
        if case.get("pre_extra") is not None and plant_roots:
            # unreferenced files that exist already before the first read (e.g. a legacy .uavcan copy next to its .dsdl twin)
            lr0 = plant_roots[case["pre_extra"]["root"] % len(plant_roots)]
            pre_set = PRE_EXTRA_SETS[case["pre_extra"]["set"] % len(PRE_EXTRA_SETS)]
            if port_twin:
                # an unreferenced definition elsewhere that uses the very port-ID of one of the targets (same kind, other name)
                pt = defs[ported[case["pre_extra"]["set"] % len(ported)]]
                pre_set = [("%d.PortTwin.1.0.dsdl" % pt["port"], "@sealed\n---\n@sealed\n" if pt["service"] else "@sealed\n")]
            for rel, text in pre_set:
                p0 = os.path.join(roots[lr0], rel)
                os.makedirs(os.path.dirname(p0), exist_ok=True)
                with open(p0, "w") as f:
                    f.write(text)
                pre_added.append(os.path.join(wsp.root_dir(ws, lr0), rel))
        closure = wsp.closure(ws, targets)
        if fault_desc is not None:
            # the injected fault may add a reference (e.g. the back edge of a cycle) that the plain model does not list
            changed = True
            while changed:
                changed = False
                for a, b in fault_desc.get("edges", []):
                    if a in closure and b not in closure:
                        closure |= wsp.closure(ws, [b])
                        changed = True
        outside = [i for i in range(n) if i not in closure]
        prints0: typing.List[typing.Any] = []
        before, _ = guarded(_outcome, run, ws, d, prints0, what="read:before")
        # ---- disturb
        disturbed: typing.List[str] = []
        victims = []
        forced = [fault_desc["namesake"]] if fault_desc is not None and fault_desc.get("namesake") in outside else []
        if sibling_index is not None and sibling_index in outside:
            forced.append(sibling_index)
        for k, v in enumerate(forced + list(case["victims"])):
            if not outside:
                break
            i = v if (k < len(forced)) else outside[v % len(outside)]
            if i in victims:
                continue
            victims.append(i)
            rel = wsp.rel_path(ws, defs[i])
            _write_replacement(os.path.join(d, rel), REPLACEMENTS[case["replacements"][k % len(case["replacements"])] % len(REPLACEMENTS)])
            disturbed.append(rel)
        for k, rel in enumerate(twin_files):
            # the namesake of a self-referential / cyclic definition is not what the reference means: its text is as irrelevant as
            # that of any other unreferenced file
            _write_replacement(os.path.join(d, rel), REPLACEMENTS[case["replacements"][k % len(case["replacements"])] % len(REPLACEMENTS)])
            disturbed.append(rel)
        if pre_added:
            # one of the pre-existing unreferenced files changes its text
            rel0 = pre_added[case["pre_extra"].get("which", 0) % len(pre_added)]
            _write_replacement(os.path.join(d, rel0), REPLACEMENTS[case["replacements"][0] % len(REPLACEMENTS)])
            disturbed.append(rel0)
        added = []
        if case["extra"] is not None and lookup_only_roots:
            lr = lookup_only_roots[case["extra"]["root"] % len(lookup_only_roots)]
            for rel, text in EXTRA_SETS[case["extra"]["set"] % len(EXTRA_SETS)]:
                p = os.path.join(roots[lr], rel)
                os.makedirs(os.path.dirname(p), exist_ok=True)
                with open(p, "w") as f:
                    f.write(text)
                added.append(os.path.join(wsp.root_dir(ws, lr), rel))
        if not disturbed and not added:
            return Info(False, ["nothing-outside-closure"])
        where = "mode %s targets %s; disturbed %s added %s; files %s" % (
            mode, [wsp.rel_path(ws, defs[i]) for i in targets], disturbed, added, sorted(wsp.rel_path(ws, x) for x in defs))
        prints1: typing.List[typing.Any] = []
        after, _ = guarded(_outcome, run, ws, d, prints1, what="read:after")
        if added and before[0] == "error" and after[0] == "error":
            # the *listing* of the lookup directories legitimately shows in some messages (e.g. the set of root namespaces searched);
            # files were added here, so only class, path and line are compared - texts are compared when texts alone were replaced
            before, after = before[:4], after[:4]
        if after != before:
            kind = "outcome-changed"
            if before[0] == "ok" and after[0] == "error":
                kind = "unreferenced-definition-evaluated" if after[2] in disturbed + added else "outcome-became-error"
            raise Violation(kind, before, after, where)
        require(prints1 == prints0, "print-stream-changed", prints0, prints1, where)
        leaked = [p for p in prints1 if p[0] in disturbed + added or p[2] == "424242"]
        require(not leaked, "print-from-unreferenced-definition", [], leaked, where)
        # ---- a malformed file *name* in a lookup directory may be reported, but only as InvalidDefinitionError
        if case["malformed"] is not None and lookup_only_roots:
            lr = lookup_only_roots[0]
            with open(os.path.join(roots[lr], MALFORMED_NAMES[case["malformed"] % len(MALFORMED_NAMES)]), "w") as f:
                f.write("@sealed\n")
            prints2: typing.List[typing.Any] = []
            third, _ = guarded(_outcome, run, ws, d, prints2, what="read:malformed-name")
            require(third == before or third[0] == "error", "malformed-name-changed-result", before, third, where)
    finally:
        ctx.cleanup(d)
    closure_names = {wsp.full_name(ws, defs[i]) for i in closure}
    closure_dirs = {os.path.dirname(wsp.rel_path(ws, defs[i])) for i in closure}
    related = any(wsp.full_name(ws, defs[i]) in closure_names or os.path.dirname(wsp.rel_path(ws, defs[i])) in closure_dirs for i in victims)
    classes = ["mode:" + mode, "outcome:" + before[0], "victims:%d" % len(victims), "added:%d" % len(added)] + (["related-victim"] if related else [])
    if deep_host is not None:
        classes.append("names-spelled-in-strings:chain-%s" % ("0" if deep["len"] == 0 else "short" if deep["len"] < 30 else "deep"))
    if fault_desc is not None:
        classes.append("closure-fault:" + fault_desc["kind"])
    return Info(bool(related or added), classes, sample=where[:1200])


# ----------------------------------------------------------------------------------------------------------------------
# Histories: "depends only on the targets and the definitions they transitively reference" also means: not on what the process has
# read before.  A lookup namespace holds two minor versions of one type that contradict each other (sealing / extent / kind /
# port-ID); each is referenced by another target, never both by one.  Every call of a drawn sequence of read_files calls (with or
# without a print handler) must give what the same call gives when it is the first one made on a pristine copy of the workspace.

CONFLICTING_PAIRS = [
    ("CS.1.0.dsdl", "uint8 a\n@sealed\n", "CS.1.1.dsdl", "uint8 a\n@extent 64\n"),
    ("CS.1.0.dsdl", "uint8 a\n@extent 64\n", "CS.1.1.dsdl", "uint8 a\n@extent 128\n"),
    ("7010.CS.1.0.dsdl", "@sealed\n", "CS.1.1.dsdl", "@sealed\n"),
    ("7010.CS.1.0.dsdl", "@sealed\n", "7011.CS.1.2.dsdl", "@sealed\n"),
    ("CS.1.0.dsdl", "uint16 a\n@sealed\n", "CS.1.3.dsdl", "uint8 a\n@sealed\n"),
]


def check_history(case: typing.Any, ctx: Ctx) -> Info:
    import shutil

    import pydsdl

    ws = copy.deepcopy(case["ws"])
    pair = CONFLICTING_PAIRS[case["pair"] % len(CONFLICTING_PAIRS)]
    d = ctx.scratch()
    try:
        first = os.path.join(d, "first")
        os.makedirs(first)
        wsp.write(ws, first)
        lk = os.path.join(first, "lkconf", "conf")
        tr = os.path.join(first, wsp.root_dir(ws, 0))
        os.makedirs(lk)
        for fn, text in ((pair[0], pair[1]), (pair[2], pair[3])):
            with open(os.path.join(lk, fn), "w") as f:
                f.write(text)
        users = []
        for k, fn in enumerate((pair[0], pair[2])):
            short, major, minor = fn.split(".")[-4:-1]
            users.append("User%d.1.0.dsdl" % k)
            with open(os.path.join(tr, users[-1]), "w") as f:
                f.write("@assert conf.%s.%s.%s._extent_ >= 0\nuint8 x\n@sealed\n" % (short, major, minor))
        n = len(ws["defs"])
        rels = [wsp.rel_path(ws, x) for x in ws["defs"]] + [os.path.join(wsp.root_dir(ws, 0), u) for u in users]
        root_rels = [wsp.root_dir(ws, i) for i in range(len(ws["roots"]))] + [os.path.join("lkconf", "conf")]

        def call(base: str, step: typing.Any) -> typing.Any:
            targets = sorted({t % len(rels) for t in step["targets"]})
            if step["one_user"] is not None:
                targets = [t for t in targets if t < n] + [n + step["one_user"] % 2]  # never both users: that set is contradictory
            paths = [os.path.join(base, rels[t]) for t in targets]
            roots = [os.path.join(base, r) for r in root_rels]
            prints: typing.List[typing.Any] = []
            handler = (lambda p, l, t: prints.append((os.path.relpath(os.path.realpath(str(p)), os.path.realpath(base)), l, t))) if step["handler"] else None
            try:
                direct, trans = pydsdl.read_files(paths, roots, None, handler, True)
            except pydsdl.InvalidDefinitionError as ex:
                p_ = os.path.relpath(os.path.realpath(str(ex.path)), os.path.realpath(base)) if ex.path else None
                return ["error", type(ex).__name__, p_, ex.line], prints
            names = lambda ts: [(t.full_name, t.version.major, t.version.minor, os.path.relpath(os.path.realpath(str(t.source_file_path)), os.path.realpath(base)), wsp.fingerprint(t)) for t in ts]
            return ["ok", names(direct), names(trans)], prints

        # the whole history first, uninterrupted (the reference calls below must not get between its steps) ...
        gots = []
        for step in case["steps"]:
            got, _ = guarded(call, first, step, what="read_files:in-history")
            gots.append(got)
        # ... then every step once more, alone, on a pristine copy
        for si, step in enumerate(case["steps"]):
            pristine = os.path.join(d, "pristine%d" % si)
            shutil.copytree(first, pristine, symlinks=True)
            want, _ = guarded(call, pristine, step, what="read_files:alone")
            shutil.rmtree(pristine, ignore_errors=True)
            require(gots[si] == want, "outcome-depends-on-earlier-calls", want, gots[si], "step %d of %s; conflicting pair %s / %s in lkconf/conf" % (si + 1, case["steps"], pair[0], pair[2]))
    finally:
        ctx.cleanup(d)
    both = {s_["one_user"] % 2 for s_ in case["steps"] if s_["one_user"] is not None}
    return Info(len(both) == 2, ["history", "steps:%d" % len(case["steps"]), "both-users-read" if len(both) == 2 else "one-user"], sample={"steps": case["steps"], "pair": [pair[0], pair[2]]})


def parts(ctx: Ctx) -> typing.List[Part]:
    ws = st.one_of(
        wsp.definitions(max_defs=8, roots=3, min_roots=2, min_defs=3),
        wsp.definitions(max_defs=8, roots=2, min_roots=2, min_defs=3, shorts=["A", "B"], subs=["sub"]),
        wsp.definitions(max_defs=8, roots=3, min_defs=3, same_name=True, shorts=["A", "B", "Msg"], subs=["sub"]),
    )
    shape = st.one_of(
        st.none(),
        st.fixed_dictionaries({"ports": st.integers(0, 2**16 - 1)}),
        st.fixed_dictionaries({"unsealed": st.integers(0, 30), "minor": st.integers(0, 255)}),
        st.fixed_dictionaries({"ports": st.integers(0, 2**16 - 1), "unsealed": st.integers(0, 30), "minor": st.integers(0, 255)}),
    )
    fault = st.one_of(
        st.none(),
        st.none(),
        st.fixed_dictionaries({"kind": st.sampled_from(["missing-name", "missing-version", "missing-relative-namesake", "missing-relative-namesake", "missing-qualified-namesake", "missing-qualified-namesake", "self", "wrong-case", "cycle", "self-with-twin", "cycle-with-twin"]), "carrier": st.integers(0, 30), "other": st.integers(0, 30)}),
    )
    cases = st.fixed_dictionaries(
        {
            "ws": ws,
            "fault": fault,
            "shape": shape,
            "mode": st.sampled_from(["namespace", "files", "files"]),
            "root": st.integers(0, 3),
            "targets": st.lists(st.integers(0, 30), min_size=1, max_size=2),
            "victims": st.lists(st.integers(0, 30), min_size=1, max_size=2),
            "replacements": st.lists(st.integers(0, len(REPLACEMENTS) - 1), min_size=1, max_size=2),
            "extra": st.one_of(st.none(), st.fixed_dictionaries({"root": st.integers(0, 3), "set": st.integers(0, len(EXTRA_SETS) - 1)})),
            "pre_extra": st.one_of(st.none(), st.none(), st.fixed_dictionaries({"root": st.integers(0, 3), "set": st.integers(0, len(PRE_EXTRA_SETS) - 1), "which": st.integers(0, 1)})),
            "malformed": st.one_of(st.none(), st.none(), st.integers(0, 2)),
            "deep": st.one_of(st.none(), st.none(), st.fixed_dictionaries({"len": st.sampled_from([0, 1, 3, 33, 40]), "absolute": st.booleans()})),
        }
    )
    step = st.fixed_dictionaries({"targets": st.lists(st.integers(0, 30), min_size=0, max_size=2), "one_user": st.one_of(st.none(), st.integers(0, 1), st.integers(0, 1)), "handler": st.booleans()}).filter(
        lambda s_: s_["targets"] or s_["one_user"] is not None
    )
    history_cases = st.fixed_dictionaries(
        {"ws": wsp.definitions(max_defs=5, roots=2, min_defs=1, shorts=["A", "B", "Msg"], subs=["sub"]), "pair": st.integers(0, len(CONFLICTING_PAIRS) - 1), "steps": st.lists(step, min_size=2, max_size=4)}
    )
    return [Part("isolation", cases, check_isolation, weight=4), Part("history", history_cases, check_history, weight=1, cost=2.0)]
