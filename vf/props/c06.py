"""C06 - serialize / deserialize round-trip and produce the Specification's wire encoding."""
from __future__ import annotations

import typing

from hypothesis import strategies as st

from ..core import Info, Part, Ctx, Violation, HarnessError, require, guarded
from ..gen import types as gt
from ..ref import bls as rbls
from ..ref import codec, layout
from . import _codec_common as cc

ID = "C06"
TITLE = "serialize/deserialize round-trip and produce the Specification's wire encoding"
RULE = (
    "(Byte arrays are also given as str when their content is valid UTF-8 - texts with multi-byte characters cut / padded to the exact capacity - and UTF-8 arrays as bytes / bytearray.)  "
    "Cases are (type spec, value, flags): composite specs from the recursive G-TYPE strategy (capacities <= 12; 255/256/65535/65536 in "
    "the prefix-boundary part) built with the public constructors, top level struct / union / delimited with and without the delimiter "
    "header; values drawn for the spec: in range (floats exactly representable in the narrow format, specials, NaN, +-inf, +-0), out of "
    "range (ints beyond the width, floats beyond the narrow format, huge ints), omitted struct keys, relaxed forms (positional tuples, "
    "bare values).  Oracles: byte-for-byte differential against an independent bit-list encoder (own IEEE 754 rounding on Fractions, "
    "cross-checked against struct), round trip against the reference's decode(encode(v)), membership of the produced length in the "
    "type's own bit_length_set, relaxed == explicit.  Non-trivial = a >= 8-bit primitive written at a non-byte-aligned offset, or "
    "nesting >= 2, or an out-of-range / omitted / relaxed input."
)
ASSUMPTIONS = [
    "NaN payload bits are not compared (any NaN is a NaN)",
    "ints given for float fields are within +-2**53 or beyond the double range (no double-rounding ambiguity)",
    "floats given for integer fields are not generated (the property does not speak about that input form)",
    "capacities above 65536 are not exercised with values",
]
BUDGET = {"quick": 1200, "thorough": 25000}
# coverage-guided twins (thorough tier): part name -> executions per shard; see core.cover
COVER = {"roundtrip": 4000}


def relax(spec: typing.Any, v: typing.Any, py: typing.Any, counters: typing.Dict[str, int]) -> typing.Any:
    """Relaxed spelling of the explicit python value `py` (model value v): positional structures, bare single-field values."""
    k = spec[0]
    if k == "delim":
        return relax(spec[1], v, py, counters)
    if k == "union":
        (name, inner), = py.items()
        t = dict((n, t) for n, t in spec[1])[name]
        return {name: relax(t, v[name], inner, counters)}
    if k in ("fixed", "var"):
        if isinstance(py, list):
            return [relax(spec[1], a, b, counters) for a, b in zip(v, py)]
        return py
    if k == "struct":
        named = [(n, t) for n, t in spec[1] if n]
        present = [n for n, _ in named if n in py]
        if len(named) == 1 and present:
            n, t = named[0]
            bare = relax(t, v[n], py[n], counters)
            if isinstance(bare, dict) and (n in bare or not bare):
                return {n: bare}  # would be read as the explicit form: keep it explicit
            counters["relaxed_bare"] = counters.get("relaxed_bare", 0) + 1
            return bare
        if len(named) >= 2 and present == [n for n, _ in named][: len(present)] and present:
            counters["relaxed_positional"] = counters.get("relaxed_positional", 0) + 1
            vals = [relax(t, v[n], py[n], counters) for n, t in named[: len(present)]]
            return tuple(vals) if len(vals) % 2 else list(vals)
        types = dict(named)
        return {n: relax(types[n], v[n], x, counters) for n, x in py.items()}
    return py


def _vary_forms(py: typing.Any, seed: int) -> typing.Optional[typing.Tuple[typing.Any]]:
    """The same value with lists turned into tuples and bytes into bytearray / lists of ints (None when nothing to vary)."""
    changed = [False]
    state = [seed or 1]

    def coin() -> bool:
        state[0] = (state[0] * 1103515245 + 12345) & 0x7FFFFFFF
        return bool((state[0] >> 8) & 1)

    def go(x: typing.Any) -> typing.Any:
        if isinstance(x, dict):
            return {k: go(v) for k, v in x.items()}
        if isinstance(x, list):
            ys = [go(v) for v in x]
            if coin():
                changed[0] = True
                return tuple(ys)
            return ys
        if isinstance(x, bytes):
            changed[0] = True
            if coin():
                try:
                    return x.decode("utf-8")  # a byte array also takes a str: its UTF-8 encoding is what is written
                except UnicodeDecodeError:
                    pass
            return bytearray(x) if coin() else list(x)
        if isinstance(x, str) and coin():
            changed[0] = True
            return bytearray(x.encode("utf-8")) if coin() else x.encode("utf-8")  # a UTF-8 array also takes the encoded bytes
        return x

    out = go(py)
    return (out,) if changed[0] else None


def _spoil(spec: typing.Any, py: typing.Any, seed: int) -> typing.Optional[typing.Any]:
    """A copy of the valid python value with ONE place made invalid (an array longer than its capacity or of the wrong fixed length, an
    unknown structure field, a union with two variants or an unknown one, a text where a number belongs), chosen by `seed` among all
    places of the value - so that a serialize() call fails somewhere in the middle of the work.  None when there is no such place."""
    import copy

    root = [copy.deepcopy(py)]
    sites: typing.List[typing.Callable[[], None]] = []

    def walk(sp: typing.Any, holder: typing.Any, key: typing.Any) -> None:
        x = holder[key]
        k = sp[0]
        if k == "delim":
            return walk(sp[1], holder, key)
        if k == "struct":
            if not isinstance(x, dict):
                return
            sites.append(lambda: x.__setitem__("no_such_field_", 0))
            for n, t in sp[1]:
                if n and n in x:
                    walk(t, x, n)
            return
        if k == "union":
            if not isinstance(x, dict) or len(x) != 1:
                return
            (name,) = x.keys()
            others = [n for n, _ in sp[1] if n != name]
            if others:
                sites.append(lambda: x.__setitem__(others[0], 0))
            sites.append(lambda: (x.clear(), x.__setitem__("no_such_variant_", 0)))
            walk(dict((n, t) for n, t in sp[1])[name], x, name)
            return
        if k in ("fixed", "var"):
            cap = sp[2]
            if cap <= 300:
                if isinstance(x, (bytes, bytearray)):
                    sites.append(lambda: holder.__setitem__(key, bytes(x) + b"\x00" * (cap + 1 - len(x))))
                elif isinstance(x, str):
                    sites.append(lambda: holder.__setitem__(key, x + "a" * (cap + 1)))
                elif isinstance(x, list):
                    filler = copy.deepcopy(x[-1]) if x else 0
                    sites.append(lambda: holder.__setitem__(key, x + [copy.deepcopy(filler) for _ in range(cap + 1 - len(x))]))
            if k == "fixed" and isinstance(x, list) and len(x) >= 1:
                sites.append(lambda: holder.__setitem__(key, x[:-1]))
            if isinstance(x, list):
                for i in range(len(x)):
                    if i < 3 or i == len(x) - 1:
                        walk(sp[1], x, i)
            return
        if k in ("uint", "int", "float", "bool", "byte"):
            sites.append(lambda: holder.__setitem__(key, "text"))
            sites.append(lambda: holder.__setitem__(key, None))

    walk(spec, root, 0)
    if not sites:
        return None
    sites[seed % len(sites)]()
    return root[0]


def length_in_bls(b: typing.Any, tree: typing.Any, nbits: int) -> typing.Optional[str]:
    """Is nbits an element of pydsdl's own bit length set `b`?  (exact when the set is small, else bounds + residues)"""
    small = rbls.expansion_tractable(tree, 3000, 50_000, 300_000)
    if small:
        return None if nbits in set(b) else "not an element of %s" % sorted(set(b))[:40]
    if not (b.min <= nbits <= b.max):
        return "outside [%d, %d]" % (b.min, b.max)
    for d in (8, 16, 32, 64):
        try:
            if rbls.modulo_cost(tree, d) > 40_000:
                continue
        except rbls.TooBig:
            continue
        if nbits % d not in set(b % d):
            return "residue %d mod %d not in %s" % (nbits % d, d, sorted(set(b % d)))
    return None


def check_roundtrip(case: typing.Any, ctx: Ctx) -> Info:
    import pydsdl

    spec = layout.freeze(case["spec"])
    value = case["value"]
    with_header = bool(case.get("header")) and spec[0] == "delim"
    flags = case.get("flags", {})
    t = cc.build_type(spec)
    py = codec.to_python(spec, value)
    try:
        enc = codec.encode(spec, value, with_header)
    except codec.BadValue as ex:
        raise HarnessError("generator produced an invalid value: %s" % ex)
    expected_bytes = codec.bits_to_bytes(enc.bits)
    name = layout.type_string(spec)[:300]

    import copy

    py_before = copy.deepcopy(py)
    data, _ = guarded(pydsdl.serialize, t, py, with_delimiter_header=with_header, what="serialize")
    # the value is the caller's: serializing it (filling in omitted fields, clamping, normalising relaxed forms) leaves it as it was
    require(repr(py) == repr(py_before), "serialize-modifies-its-input", repr(py_before)[:400], repr(py)[:400], "type %s" % layout.type_string(spec)[:200])
    # a call that fails half-way (one place of the value made invalid) must not leave anything behind: the valid value serialized after it
    # gives the same bytes as before.  Nothing is asserted about the failing call itself - invalid values are outside the property.
    if case.get("form", 0) % 3 != 1:
        bad = _spoil(spec, py, case.get("form", 0) // 3)
        if bad is not None:
            try:
                pydsdl.serialize(t, bad, with_delimiter_header=with_header)
                ctx.extra["spoiled_accepted"] = ctx.extra.get("spoiled_accepted", 0) + 1
            except Exception:  # pylint: disable=broad-except
                ctx.extra["spoiled_rejected"] = ctx.extra.get("spoiled_rejected", 0) + 1
    again_same, _ = guarded(pydsdl.serialize, t, py, with_delimiter_header=with_header, what="serialize-again")
    require(again_same == data, "serialize-not-repeatable", data.hex(), again_same.hex() if isinstance(again_same, bytes) else again_same, "type %s value %r" % (layout.type_string(spec)[:200], py))
    # the documented alternative container types (tuples for arrays, bytearray / list of ints for byte strings) encode alike
    alt = _vary_forms(py, case.get("form", 0))
    if alt is not None:
        data_alt, _ = guarded(pydsdl.serialize, t, alt[0], with_delimiter_header=with_header, what="serialize-alt-forms")
        require(data_alt == data, "input-container-type-changes-encoding", data.hex(), data_alt.hex() if isinstance(data_alt, bytes) else data_alt,
                "type %s value %r vs %r" % (layout.type_string(spec)[:200], py, alt[0]))
        ctx.extra["alt_forms"] = ctx.extra.get("alt_forms", 0) + 1
    require(isinstance(data, bytes), "serialize-returns-bytes", "bytes", type(data).__name__)
    diff = codec.matches(enc, data)
    sig = "encoding"
    if diff is not None:
        if flags.get("oor"):
            sig = "encoding:out-of-range"
        elif flags.get("omit"):
            sig = "encoding:omitted-field"
        raise Violation(sig, expected_bytes.hex(), data.hex(), "%s; type %s value %r" % (diff, name, value))

    # the produced length is an element of the type's own bit length set
    carrier = t if (with_header or spec[0] != "delim") else t.inner_type
    carrier_spec = spec if (with_header or spec[0] != "delim") else spec[1]
    if with_header:
        # a delimited type written *with* its header: header + payload of the inner type
        problem = length_in_bls(t.bit_length_set, layout.tree(spec), 8 * len(data))
        require(problem is None, "length-not-in-bit-length-set", "element of bit_length_set", 8 * len(data), "%s: %s" % (name, problem))
        problem = length_in_bls(t.inner_type.bit_length_set, layout.tree(spec[1]), 8 * len(data) - 32)
        require(problem is None, "length-not-in-bit-length-set", "payload in inner bit_length_set", 8 * len(data) - 32, "%s: %s" % (name, problem))
    else:
        problem = length_in_bls(carrier.bit_length_set, layout.tree(carrier_spec), 8 * len(data))
        require(problem is None, "length-not-in-bit-length-set", "element of bit_length_set", 8 * len(data), "%s: %s" % (name, problem))

    # round trip
    expected_back = codec.decode(spec, expected_bytes, with_header)
    back, _ = guarded(pydsdl.deserialize, t, data, with_delimiter_header=with_header, what="deserialize")
    got = codec.from_python(spec, back)
    if not codec.same(spec, got, expected_back):
        sig = "roundtrip"
        if flags.get("oor"):
            sig = "roundtrip:out-of-range"
        elif flags.get("omit"):
            sig = "roundtrip:omitted-field"
        raise Violation(sig, expected_back, got, "type %s value %r bytes %s" % (name, value, data.hex()))
    # memoryview / bytearray inputs are accepted alike
    back2, _ = guarded(pydsdl.deserialize, t, memoryview(bytearray(data)), with_delimiter_header=with_header, what="deserialize-memoryview")
    require(codec.same(spec, codec.from_python(spec, back2), expected_back), "roundtrip:memoryview", expected_back, back2)

    # relaxed forms encode to the same bytes
    relaxed_used = False
    if flags.get("relaxed"):
        before = ctx.extra.get("relaxed_bare", 0) + ctx.extra.get("relaxed_positional", 0)
        rel = relax(spec, value, py, ctx.extra)
        relaxed_used = ctx.extra.get("relaxed_bare", 0) + ctx.extra.get("relaxed_positional", 0) > before
        data_r, _ = guarded(pydsdl.serialize, t, rel, with_delimiter_header=with_header, relaxed=True, what="serialize-relaxed")
        require(data_r == data, "relaxed-form-differs", data.hex(), data_r.hex() if isinstance(data_r, bytes) else data_r, "type %s relaxed %r explicit %r" % (name, rel, py))
        # the explicit form is also accepted in relaxed mode
        data_e, _ = guarded(pydsdl.serialize, t, py, with_delimiter_header=with_header, relaxed=True, what="serialize-relaxed-explicit")
        require(data_e == data, "relaxed-mode-changes-explicit", data.hex(), data_e.hex() if isinstance(data_e, bytes) else data_e, "type %s value %r" % (name, py))

    d = layout.depth(spec)
    classes = ["depth:%d" % min(d, 4), "top:" + spec[0]] + (["with-header"] if with_header else [])
    if enc.unaligned_wide:
        classes.append("unaligned-wide-primitive")
    if enc.nan_regions:
        classes.append("nan")
    for f in ("oor", "omit"):
        if flags.get(f):
            classes.append(f)
    if relaxed_used:
        classes.append("relaxed")
    nontrivial = bool(enc.unaligned_wide) or d >= 2 or flags.get("oor") or flags.get("omit") or relaxed_used
    return Info(bool(nontrivial), classes, sample={"type": name, "value": value, "bytes": data.hex()[:200], "flags": flags})


def _cases(spec_strategy: st.SearchStrategy) -> st.SearchStrategy:
    def with_value(args: typing.Tuple[typing.Any, typing.Dict[str, bool], bool]) -> st.SearchStrategy:
        spec, flags, header = args
        return gt.values(layout.freeze(spec), out_of_range=flags["oor"], omit=flags["omit"]).map(
            lambda v: {"spec": spec, "value": v, "flags": flags, "header": header}
        ).flatmap(lambda c: st.integers(1, 2**20).map(lambda f: dict(c, form=f)))

    flags = st.fixed_dictionaries({"oor": st.booleans(), "omit": st.booleans(), "relaxed": st.booleans()})
    return st.tuples(spec_strategy, flags, st.booleans()).flatmap(with_value)


def _boundary_specs() -> st.SearchStrategy:
    elem = st.one_of(
        st.just(["bool"]),
        st.integers(1, 8).map(lambda w: ["uint", w, "trunc"]),
        st.integers(2, 8).map(lambda w: ["int", w]),
        st.just(["byte"]),
        st.just(["utf8"]),
    )
    cap = st.sampled_from([254, 255, 256, 257, 65535, 65536])
    arr = st.tuples(elem, cap, st.booleans()).map(lambda t: ["var", t[0], t[1]] if (t[2] or t[0][0] == "utf8") else ["fixed" if t[0][0] != "utf8" else "var", t[0], t[1]])
    return st.tuples(arr, st.sampled_from([["bool"], ["uint", 8, "sat"], ["uint", 13, "sat"]]), st.booleans()).map(
        lambda t: ["struct", ([["p", t[1]]] if t[2] else []) + [["x", t[0]], ["y", ["uint", 16, "sat"]]]]
    )


def _big_union_cases() -> st.SearchStrategy:
    """Unions whose tag value reaches the top half of 8 bits and beyond (tag width 8 / 16)."""

    def build(t: typing.Tuple[int, int, typing.Any, bool]) -> typing.Any:
        n, pick, payload, wrap = t
        idx = [0, 127, 128, n // 2, n - 2, n - 1][pick % 6] % n
        variants = [["v%d" % i, ["uint", (i % 13) + 1, "sat"]] for i in range(n)]
        variants[idx] = ["v%d" % idx, ["var", ["uint", 9, "trunc"], 3]]
        spec: typing.Any = ["union", variants]
        value: typing.Any = {"v%d" % idx: payload}
        if wrap:
            spec = ["struct", [["lead", ["uint", 3, "sat"]], ["u", spec], ["tail", ["uint", 8, "sat"]]]]
            value = {"lead": 5, "u": value, "tail": 200}
        return {"spec": spec, "value": value, "flags": {"oor": False, "omit": False, "relaxed": False}, "header": False, "form": 3}

    return st.tuples(st.sampled_from([129, 200, 255, 256, 257, 300]), st.integers(0, 5), st.lists(st.integers(0, 511), max_size=3), st.booleans()).map(build)


def _boundary_cases() -> st.SearchStrategy:
    def with_value(spec: typing.Any) -> st.SearchStrategy:
        fs = layout.freeze(spec)
        arr = [t for n, t in fs[1] if n == "x"][0]
        cap = arr[2]
        if arr[0] == "fixed":
            sizes = st.just(cap)
        else:
            sizes = st.sampled_from([0, 1, cap - 1, cap, cap // 2, 255, 256])
        el = arr[1]

        def arr_value(n: int) -> st.SearchStrategy:
            n = min(n, cap)
            if el[0] == "utf8":
                return st.sampled_from(["a", "é", "€"]).map(lambda ch: (ch * n).encode("utf-8")[:n].decode("utf-8", "ignore"))
            if el[0] == "byte":
                return st.integers(0, 255).map(lambda b: {"b": (bytes([b, (b * 7 + 1) % 256]) * (n // 2 + 1))[:n].hex()})
            pattern = st.lists(gt.values(el), min_size=1, max_size=5)
            return pattern.map(lambda p: [p[i % len(p)] for i in range(n)])

        others = {n: gt.values(t) for n, t in fs[1] if n and n != "x"}
        return sizes.flatmap(lambda n: st.fixed_dictionaries(dict(others, x=arr_value(n)))).map(
            lambda v: {"spec": spec, "value": v, "flags": {"oor": False, "omit": False, "relaxed": False}, "header": False}
        )

    return _boundary_specs().flatmap(with_value)


def parts(ctx: Ctx) -> typing.List[Part]:
    checked = ctx.extra.setdefault("ieee_self_test_values", codec.self_test(1500))
    assert checked > 0
    return [
        Part("roundtrip", _cases(gt.composites(gt.small_capacity(), max_leaves=8)), check_roundtrip, weight=10),
        Part("prefix-boundary", _boundary_cases(), check_roundtrip, weight=1, cost=40.0, min_examples=6),
        Part("big-union", _big_union_cases(), check_roundtrip, weight=1, cost=30.0, min_examples=6),
    ]
