"""C05 - a definition is accepted if and only if it obeys the static rules of DSDL."""
from __future__ import annotations

import os
import typing

from hypothesis import strategies as st

from ..core import Info, Part, Ctx, Violation, HarnessError, require, guarded
from ..gen import rulesgen as rg
from ..ref import rules

ID = "C05"
TITLE = "A definition is accepted if and only if it obeys the static rules of DSDL"
RULE = (
    "Cases are (valid skeleton, 0..3 edits): the skeleton is a message or service, structure or union, optionally deprecated, with "
    "fields of primitive / array / dependency types (dependencies incl. a deprecated one live in the same namespace), paddings, a "
    "constant, @sealed or @extent; each edit targets one rule with its boundary values: retype an attribute (widths 1/2/64/65, float "
    "8/16/17/32/64/128, cast modes incl. truncated signed, capacities 0/1/2 in the three array forms, utf8 / byte / void placement, "
    "deprecated / missing dependencies), rename (reserved and near-reserved words in every letter case, duplicates), insert / delete a "
    "statement (directives with / without operands, unknown directives, second `---`, padding in unions, attributes after @extent), "
    "extent = max-8 / max / max+8 / max+4, version numbers, fixed port-IDs around every range boundary with the unregulated flag on and "
    "off for standard and vendor roots, reserved words as type / namespace names.  Oracle: an independent validator over the edited "
    "*model* (not over which edits were applied): accepted <=> valid, every rejection is an InvalidDefinitionError.  Non-trivial = at "
    "least one edit."
)
ASSUMPTIONS = [
    "reserved-word table as in Specification section 3.4.1; attribute names differing only by letter case are not claimed either way",
    "texts end with a newline (the missing-final-newline behaviour is C03's business)",
]
BUDGET = {"quick": 700, "thorough": 14000}


def check_rules(case: typing.Any, ctx: Ctx) -> Info:
    import pydsdl

    model = case["skeleton"]
    for e in case["edits"]:
        model = rg.apply_edit(model, e)
    model = rg.resolve_extents(model)
    verdict = rules.validate(model, rg.DEP_TABLE)
    text = rules.render(model)
    d = ctx.scratch()
    try:
        root = os.path.join(d, model["root"])
        folder = os.path.join(root, *model["ns"])
        os.makedirs(folder)
        for name, (_dep, _spec, src) in rg.DEPS.items():
            with open(os.path.join(folder, name + ".1.0.dsdl"), "w") as f:
                f.write(src)
        fn = rules.file_name(model)
        with open(os.path.join(folder, fn), "w") as f:
            f.write(text)
        res, ex = guarded(
            pydsdl.read_namespace, root, [], allow_unregulated_fixed_port_id=model["allow_unregulated"],
            allowed=(pydsdl.InvalidDefinitionError,), what="read",
        )
    finally:
        ctx.cleanup(d)
    where = "%s/%s:\n%s" % ("/".join([model["root"]] + model["ns"]), fn, text)
    if verdict is None:
        require(ex is None, "valid-definition-rejected", "accepted", "%s: %s" % (type(ex).__name__, str(ex)[-300:]), where)
        names = {t.short_name for t in res}
        require(model["short"] in names, "definition-missing", model["short"], sorted(names), where)
    else:
        require(ex is not None, "invalid-definition-accepted:" + verdict, "InvalidDefinitionError (%s)" % verdict, "accepted", where)
    classes = ["valid" if verdict is None else "invalid:" + verdict, "edits:%d" % len(case["edits"])] + ["edit:" + e[0] for e in case["edits"]]
    return Info(len(case["edits"]) >= 1, classes, sample={"file": where, "verdict": verdict or "valid"})


def parts(ctx: Ctx) -> typing.List[Part]:
    cases = st.fixed_dictionaries({"skeleton": rg.skeletons(), "edits": st.lists(rg.edits(), min_size=0, max_size=3)})
    one_edit = st.fixed_dictionaries({"skeleton": rg.skeletons(), "edits": st.lists(rg.edits(), min_size=1, max_size=1)})
    return [Part("edits", cases, check_rules, weight=2), Part("single-edit", one_edit, check_rules, weight=2)]
