"""C05 - a definition is accepted if and only if it obeys the static rules of DSDL."""
from __future__ import annotations

import os
import typing

from hypothesis import strategies as st

from ..core import Info, Part, Ctx, Violation, HarnessError, require, guarded
from ..gen import rulesgen as rg
from ..ref import rules

ID = "C05"
TITLE = "A definition is accepted if and only if it obeys the static rules of DSDL"
RULE = (
    "(Directive operands include every falsy-looking value: false, 0, 0/1, the empty string.  Names include non-ASCII look-alikes - the Kelvin sign, full-width letters, Arabic-Indic digits - and, for the names that come from the file system, blanks and line breaks around the name.  Root namespaces include case variants of the two standard ones, which are vendor namespaces.)  "
    "Cases are (valid skeleton, 0..3 edits): the skeleton is a message or service, structure or union, optionally deprecated, with "
    "fields of primitive / array / dependency types (dependencies incl. a deprecated one live in the same namespace), paddings, a "
    "constant, @sealed or @extent; each edit targets one rule with its boundary values: retype an attribute (widths 1/2/64/65, float "
    "8/16/17/32/64/128, cast modes incl. truncated signed, capacities 0/1/2 in the three array forms, utf8 / byte / void placement, "
    "deprecated / missing dependencies), rename (reserved and near-reserved words in every letter case, duplicates), insert / delete a "
    "statement (directives with / without operands, unknown directives, second `---`, padding in unions, attributes after @extent), "
    "extent = max-8 / max / max+8 / max+4, version numbers, fixed port-IDs around every range boundary with the unregulated flag on and "
    "off for standard and vendor roots, reserved words as type / namespace names.  The same models are also placed in a dependency (same root or a foreign root namespace) that a valid target references.  Oracle: an independent validator over the edited "
    "*model* (not over which edits were applied): accepted <=> valid, every rejection is an InvalidDefinitionError.  Non-trivial = at "
    "least one edit, or a member of the exhaustive single-rule grids (types x casts x array forms x contexts; reserved words x roles; port-IDs x roots x kinds; versions; extents)."
)
ASSUMPTIONS = [
    "reserved-word table as in Specification section 3.4.1; attribute names differing only by letter case are not claimed either way",
    "texts end with a newline (the missing-final-newline behaviour is C03's business)",
]
BUDGET = {"quick": 700, "thorough": 14000}
# coverage-guided twins (thorough tier): part name -> executions per shard; see core.cover
COVER = {"edits": 3000, "dependency": 1500}


def check_rules(case: typing.Any, ctx: Ctx) -> Info:
    import pydsdl

    model = case["skeleton"]
    for e in case["edits"]:
        model = rg.apply_edit(model, e)
    model = rg.resolve_extents(model)
    verdict = rules.validate(model, rg.DEP_TABLE)
    text = rules.render(model)
    d = ctx.scratch()
    try:
        root = os.path.join(d, model["root"])
        folder = os.path.join(root, *model["ns"])
        os.makedirs(folder)
        for name, (_dep, _spec, src) in rg.DEPS.items():
            with open(os.path.join(folder, name + ".1.0.dsdl"), "w") as f:
                f.write(src)
        fn = rules.file_name(model)
        with open(os.path.join(folder, fn), "w") as f:
            f.write(text)
        res, ex = guarded(
            pydsdl.read_namespace, root, [], allow_unregulated_fixed_port_id=model["allow_unregulated"],
            allowed=(pydsdl.InvalidDefinitionError,), what="read",
        )
        edited = None
        uses_deps = sorted({s_["type"]["dep"] for s_ in model["statements"] if s_["s"] in ("field", "const") and s_["type"].get("base") == "dep" and s_["type"].get("dep") in rg.DEPS})
        if uses_deps and case.get("edit_dependency", 1):
            # a dependency is edited in place - it becomes deprecated, or stops being so - while the definition under test stays as
            # it is: whether the definition is (still) legal is decided against the dependency as it is now
            table = dict(rg.DEP_TABLE)
            for name in uses_deps:
                dep, spec, src = rg.DEPS[name]
                new_src = src.replace("@deprecated\n", "") if dep else "@deprecated\n" + src
                with open(os.path.join(folder, name + ".1.0.dsdl"), "w") as f:
                    f.write(new_src)
                table[name] = (not dep, spec)
            res3, ex3 = guarded(pydsdl.read_namespace, root, [], allow_unregulated_fixed_port_id=model["allow_unregulated"], allowed=(pydsdl.InvalidDefinitionError,), what="read:dependency-edited")
            edited = (rules.validate(model, table), ex3, uses_deps)
            for name in uses_deps:
                with open(os.path.join(folder, name + ".1.0.dsdl"), "w") as f:
                    f.write(rg.DEPS[name][2])
        flipped = None
        if model["port"] is not None:
            # the same files once more with the other setting of the flag: the verdict is a function of the definition and the
            # flag, not of what an earlier call in this process concluded
            other = dict(model, allow_unregulated=not model["allow_unregulated"])
            res2, ex2 = guarded(pydsdl.read_namespace, root, [], allow_unregulated_fixed_port_id=other["allow_unregulated"], allowed=(pydsdl.InvalidDefinitionError,), what="read:flag-flipped")
            flipped = (rules.validate(other, rg.DEP_TABLE), ex2)
    finally:
        ctx.cleanup(d)
    where = "%s/%s:\n%s" % ("/".join([model["root"]] + model["ns"]), fn, text)
    if edited is not None:
        v3, ex3, which = edited
        w3 = where + "\n(second read after the dependencies %s had their @deprecated toggled in place)" % which
        if v3 is None:
            require(ex3 is None, "valid-definition-rejected:after-dependency-edit", "accepted", "%s: %s" % (type(ex3).__name__, str(ex3)[-300:]), w3)
        else:
            require(ex3 is not None, "invalid-definition-accepted:after-dependency-edit:" + v3, "InvalidDefinitionError (%s)" % v3, "accepted", w3)
    if flipped is not None:
        v2, ex2 = flipped
        w2 = where + "\n(second call in the same process, allow_unregulated_fixed_port_id=%s after %s)" % (not model["allow_unregulated"], model["allow_unregulated"])
        if v2 is None:
            require(ex2 is None, "valid-definition-rejected:after-call-with-other-flag", "accepted", "%s: %s" % (type(ex2).__name__, str(ex2)[-300:]), w2)
        else:
            require(ex2 is not None, "invalid-definition-accepted:after-call-with-other-flag:" + v2, "InvalidDefinitionError (%s)" % v2, "accepted", w2)
    if verdict is None:
        require(ex is None, "valid-definition-rejected", "accepted", "%s: %s" % (type(ex).__name__, str(ex)[-300:]), where)
        names = {t.short_name for t in res}
        require(model["short"] in names, "definition-missing", model["short"], sorted(names), where)
    else:
        require(ex is not None, "invalid-definition-accepted:" + verdict, "InvalidDefinitionError (%s)" % verdict, "accepted", where)
    classes = ["valid" if verdict is None else "invalid:" + verdict, "edits:%d" % len(case["edits"])] + ["edit:" + e[0] for e in case["edits"]]
    if "grid" in case:
        classes.append("grid:" + case["grid"])
    return Info(len(case["edits"]) >= 1 or "grid" in case, classes, sample={"file": where, "verdict": verdict or "valid"})


def check_rules_in_dependency(case: typing.Any, ctx: Ctx) -> Info:
    """The same rules apply to a definition that is only *referenced*: the model is written into another root namespace (or
    the same one) and read as a dependency of a trivially valid target."""
    import pydsdl

    model = case["skeleton"]
    for e in case["edits"]:
        model = rg.apply_edit(model, e)
    model = rg.resolve_extents(model)
    foreign = case["foreign"]
    # the dependency lives in root "lib" (foreign) or in the target's own root "app"; both are vendor namespaces
    model = dict(model, root="lib" if foreign else "app")
    verdict = rules.validate(model, rg.DEP_TABLE)
    text = rules.render(model)
    d = ctx.scratch()
    try:
        app = os.path.join(d, "w", "app")
        lib = os.path.join(d, "w2", "lib")
        folder = os.path.join(lib if foreign else app, *model["ns"])
        os.makedirs(folder, exist_ok=True)
        os.makedirs(app, exist_ok=True)
        os.makedirs(lib, exist_ok=True)
        for name, (_dep, _spec, src) in rg.DEPS.items():
            with open(os.path.join(folder, name + ".1.0.dsdl"), "w") as f:
                f.write(src)
        fn = rules.file_name(model)
        with open(os.path.join(folder, fn), "w") as f:
            f.write(text)
        full = ".".join([model["root"]] + model["ns"] + [model["short"]])
        # referenced as a value in an expression: no aggregation constraints (deprecation, services) get in the way
        with open(os.path.join(app, "Target.1.0.dsdl"), "w") as f:
            f.write("@deprecated\n@print %s.%d.%d\n@sealed\n" % (full, model["version"][0], model["version"][1]))
        res, ex = guarded(
            pydsdl.read_files, [os.path.join(app, "Target.1.0.dsdl")], [app], [lib], None, model["allow_unregulated"],
            allowed=(pydsdl.InvalidDefinitionError,), what="read_files:dependency",
        )
        flipped = None
        if model["port"] is not None:
            other = dict(model, allow_unregulated=not model["allow_unregulated"])
            res2, ex2 = guarded(pydsdl.read_files, [os.path.join(app, "Target.1.0.dsdl")], [app], [lib], None, other["allow_unregulated"], allowed=(pydsdl.InvalidDefinitionError,), what="read_files:dependency:flag-flipped")
            flipped = (rules.validate(other, rg.DEP_TABLE), ex2)
    finally:
        ctx.cleanup(d)
    if flipped is not None:
        v2, ex2 = flipped
        w2 = "dependency %s (second call in the same process with allow_unregulated_fixed_port_id=%s)\n%s" % (fn, not model["allow_unregulated"], text)
        if v2 is None:
            require(ex2 is None, "valid-dependency-rejected:after-call-with-other-flag", "accepted", "%s: %s" % (type(ex2).__name__, str(ex2)[-300:]), w2)
        else:
            require(ex2 is not None, "invalid-dependency-accepted:after-call-with-other-flag:" + v2, "InvalidDefinitionError (%s)" % v2, "accepted", w2)
    where = "dependency %s/%s (%s root), referenced from app/Target.1.0:\n%s" % ("/".join([model["root"]] + model["ns"]), fn, "foreign" if foreign else "same", text)
    if verdict is None:
        require(ex is None, "valid-dependency-rejected", "accepted", "%s: %s" % (type(ex).__name__, str(ex)[-300:]), where)
    else:
        require(ex is not None, "invalid-dependency-accepted:" + verdict, "InvalidDefinitionError (%s)" % verdict, "accepted", where)
    classes = ["as-dependency", "foreign-root" if foreign else "same-root", "valid" if verdict is None else "invalid:" + verdict]
    return Info(True, classes, sample={"file": where, "verdict": verdict or "valid"})


def _dependency_grid(ctx: Ctx) -> typing.Iterable[typing.Any]:
    """Port-ID and version rules of a definition that is reached only as a dependency, in the same and in a foreign root."""
    for foreign in (False, True):
        for service in (False, True):
            for port in (None, 0, 255, 256, 300, 383, 384, 511, 512, 1234, 6143, 6144, 7000, 7167, 7168, 8191, 8192):
                for allow in (False, True):
                    m = _base(short="Sample")
                    m["port"] = port
                    m["allow_unregulated"] = allow
                    m["statements"] = [_sealed()] + ([{"s": "marker"}, _sealed()] if service else [])
                    yield {"skeleton": m, "edits": [], "foreign": foreign}
        for version in ([0, 0], [0, 1], [255, 255], [256, 0]):
            m = _base(short="Sample")
            m["version"] = version
            m["statements"] = [_sealed()]
            yield {"skeleton": m, "edits": [], "foreign": foreign}


def _base(short: str = "Foo", root: str = "vendor") -> typing.Any:
    return {"root": root, "ns": [], "short": short, "version": [1, 0], "port": None, "allow_unregulated": False, "statements": []}


def _sealed() -> typing.Any:
    return {"s": "dir", "name": "sealed", "expr": None}


def _grid(ctx: Ctx) -> typing.Iterable[typing.Any]:
    """Exhaustive single-rule sweeps (every boundary value of every numeric rule, every reserved / near-reserved word in
    every role), complementing the random edits."""
    u8 = {"base": "uint", "width": 8, "cast": None, "array": None}
    # --- types: every scalar x cast x array form, as a struct field, a union variant and a constant type
    scalars = []
    for w in (1, 2, 63, 64, 65, 1000):
        for c in (None, "saturated", "truncated"):
            scalars.append({"base": "uint", "width": w, "cast": c})
    for w in (1, 2, 3, 64, 65):
        for c in (None, "saturated", "truncated"):
            scalars.append({"base": "int", "width": w, "cast": c})
    for w in (8, 15, 16, 17, 32, 64, 128):
        for c in (None, "saturated", "truncated"):
            scalars.append({"base": "float", "width": w, "cast": c})
    for b in ("bool", "byte", "utf8"):
        for c in (None, "saturated", "truncated"):
            scalars.append({"base": b, "cast": c})
    for w in (1, 64, 65):
        for c in (None, "saturated"):
            scalars.append({"base": "void", "width": w, "cast": c})
    for dname in ("Dep", "DepD", "DepV", "DepU", "Nope", "dep"):
        for c in (None, "truncated"):
            scalars.append({"base": "dep", "dep": dname, "cast": c})
    arrays = [None] + [[k, n] for k in ("fixed", "le", "lt") for n in (-1, 0, 1, 2, 3)]
    for sc in scalars:
        for arr in arrays:
            t = dict(sc, array=arr)
            for ctxk in ("struct", "union", "deprecated-struct", "const", "bare"):
                m = _base()
                st_ = m["statements"]
                if ctxk == "deprecated-struct":
                    st_.append({"s": "dir", "name": "deprecated", "expr": None})
                if ctxk == "union":
                    st_.append({"s": "dir", "name": "union", "expr": None})
                    st_.append({"s": "field", "type": u8, "name": "first"})
                if ctxk == "const":
                    st_.append({"s": "const", "type": t, "name": "K", "value": ["int", 1]})
                elif ctxk == "bare":
                    st_.append({"s": "field", "type": t, "name": ""})
                else:
                    st_.append({"s": "field", "type": t, "name": "x"})
                st_.append(_sealed())
                yield {"skeleton": m, "edits": [], "grid": "type:" + ctxk}
    # --- names in every role
    for name in rg.GOOD_NAMES + rg.BAD_NAMES + ["A1", "a1_b2", "x" * 60]:
        for role in ("field", "const", "short", "ns", "service-field"):
            m = _base()
            if role == "field":
                m["statements"] = [{"s": "field", "type": u8, "name": name}, _sealed()]
            elif role == "const":
                m["statements"] = [{"s": "const", "type": u8, "name": name, "value": ["int", 1]}, _sealed()]
            elif role == "short":
                m["short"] = name
                m["statements"] = [_sealed()]
            elif role == "ns":
                m["ns"] = ["ok", name]
                m["statements"] = [_sealed()]
            else:
                m["statements"] = [_sealed(), {"s": "marker"}, {"s": "field", "type": u8, "name": name}, _sealed()]
            yield {"skeleton": m, "edits": [], "grid": "name:" + role}
    for name in rg.FILE_BAD_NAMES:
        for role in ("short", "ns"):
            m = _base()
            m["statements"] = [_sealed()]
            if role == "short":
                m["short"] = name
            else:
                m["ns"] = ["ok", name]
            yield {"skeleton": m, "edits": [], "grid": "name:" + role}
    # --- fixed port-IDs around every boundary
    ports = [0, 1, 255, 256, 257, 382, 383, 384, 385, 510, 511, 512, 513, 6142, 6143, 6144, 6145, 7166, 7167, 7168, 7169, 8190, 8191, 8192, 8193, 65535]
    for root in ("uavcan", "cyphal", "vendor", "uavcanx", "Uavcan", "UAVCAN", "Cyphal", "cyphaL", "uavcan_", "cyphal2"):  # names are case-sensitive: only the exact two are standard
        for service in (False, True):
            for port in ports:
                for allow in (False, True):
                    m = _base(root=root)
                    m["port"] = port
                    m["allow_unregulated"] = allow
                    m["statements"] = [_sealed()] + ([{"s": "marker"}, _sealed()] if service else [])
                    yield {"skeleton": m, "edits": [], "grid": "port"}
    # --- versions
    for major in (0, 1, 254, 255, 256, 1000):
        for minor in (0, 1, 255, 256):
            m = _base()
            m["version"] = [major, minor]
            m["statements"] = [_sealed()]
            yield {"skeleton": m, "edits": [], "grid": "version"}
    # --- every directive (and the service marker) at every position of small message / service skeletons
    directives = [{"s": "dir", "name": n, "expr": e} for n in ("union", "deprecated", "sealed", "print", "foo", "assert", "extent") for e in (None, ["bool", True], ["bool", False], ["int", 8], ["int", 0], ["frac", 0, 1], ["frac", 1, 2], ["str", ""], ["str", "x"])]
    directives += [{"s": "dir", "name": "extent", "expr": ["rel", 0]}, {"s": "dir", "name": "assert", "expr": ["bool", False]}, {"s": "marker"}]
    fa = {"s": "field", "type": u8, "name": "a"}
    fb = {"s": "field", "type": dict(u8, width=16), "name": "b"}
    ka = {"s": "const", "type": u8, "name": "K", "value": ["int", 1]}
    skeletons_ = [
        [fa, fb, _sealed()],
        [fa, fb],
        [{"s": "dir", "name": "union", "expr": None}, fa, fb, _sealed()],
        [{"s": "dir", "name": "deprecated", "expr": None}, fa, _sealed(), {"s": "marker"}, fb, _sealed()],
        [fa, _sealed(), {"s": "marker"}, ka, fb],
        [fa, _sealed(), {"s": "marker"}, fb, _sealed()],
        [_sealed(), {"s": "marker"}, _sealed()],
        [ka, fa, {"s": "dir", "name": "extent", "expr": ["rel", 8]}],
    ]
    for sk in skeletons_:
        for dct in directives:
            for pos in range(len(sk) + 1):
                m = _base()
                m["statements"] = [dict(x) for x in sk[:pos]] + [dict(dct)] + [dict(x) for x in sk[pos:]]
                yield {"skeleton": m, "edits": [], "grid": "directive-placement"}
    # --- every kind of attribute at every position of small skeletons around @sealed / @extent (an extent of zero, of a few bytes, given
    #     as a number; empty sections, constants only, unions, both sides of a service): nothing may follow @extent, anything may follow @sealed
    kz = {"s": "const", "type": u8, "name": "KZ", "value": ["int", 2]}
    fz = {"s": "field", "type": u8, "name": "z"}
    pz = {"s": "field", "type": {"base": "void", "width": 8, "cast": None, "array": None}, "name": ""}
    ext0 = {"s": "dir", "name": "extent", "expr": ["rel", 0]}
    ext8 = {"s": "dir", "name": "extent", "expr": ["rel", 8]}
    skeletons2 = [
        [ext0],
        [ka, ext0],
        [{"s": "dir", "name": "extent", "expr": ["int", 64]}],
        [{"s": "dir", "name": "extent", "expr": ["int", 0]}],
        [fa, ext0],
        [fa, ext8],
        [_sealed()],
        [fa, _sealed()],
        [{"s": "dir", "name": "union", "expr": None}, fa, fb, ext0],
        [_sealed(), {"s": "marker"}, ext0],
        [ext0, {"s": "marker"}, _sealed()],
        [fa, ext8, {"s": "marker"}, ka, ext0],
        [{"s": "dir", "name": "deprecated", "expr": None}, ext0],
    ]
    for sk in skeletons2:
        for attr in (kz, fz, pz):
            for pos in range(len(sk) + 1):
                m = _base()
                m["statements"] = [dict(x) for x in sk[:pos]] + [dict(attr)] + [dict(x) for x in sk[pos:]]
                yield {"skeleton": m, "edits": [], "grid": "attribute-placement"}
    # --- extents relative to the longest representation
    bodies = [[], [{"s": "field", "type": u8, "name": "a"}], [{"s": "field", "type": dict(u8, width=3), "name": "a"}],
              [{"s": "field", "type": dict(u8, array=["le", 3]), "name": "a"}, {"s": "field", "type": {"base": "dep", "dep": "DepV", "cast": None, "array": None}, "name": "b"}]]
    for body in bodies:
        for union in (False, True):
            if union and len(body) < 2:
                continue
            for d in (-16, -8, -7, -1, 0, 1, 4, 7, 8, 9, 16, 800):
                m = _base()
                m["statements"] = ([{"s": "dir", "name": "union", "expr": None}] if union else []) + list(body) + [{"s": "dir", "name": "extent", "expr": ["rel", d]}]
                yield {"skeleton": m, "edits": [], "grid": "extent"}


def parts(ctx: Ctx) -> typing.List[Part]:
    cases = st.fixed_dictionaries({"skeleton": rg.skeletons(), "edits": st.lists(rg.edits(), min_size=0, max_size=3)})
    one_edit = st.fixed_dictionaries({"skeleton": rg.skeletons(), "edits": st.lists(rg.edits(), min_size=1, max_size=1)})
    return [
        Part("edits", cases, check_rules, weight=2),
        Part("single-edit", one_edit, check_rules, weight=2),
        Part("grid", None, check_rules, weight=0, grid=_grid),
        Part("dependency", st.fixed_dictionaries({"skeleton": rg.skeletons(), "edits": st.lists(rg.edits(), min_size=0, max_size=2), "foreign": st.booleans()}),
             check_rules_in_dependency, weight=1),
        Part("dependency-grid", None, check_rules_in_dependency, weight=0, grid=_dependency_grid),
    ]
