"""Shared by C06 / C07 / C14: building the pydsdl type of a spec and classifying outcomes of deserialize."""
from __future__ import annotations

import typing

from ..core import Violation, guarded, require
from ..gen.materialize import ApiBuilder
from ..ref import codec, layout


def build_type(spec: typing.Any) -> typing.Any:
    b = ApiBuilder()
    t, _ = guarded(b.build, spec, what="construct")
    return t


def pydsdl_error_category(ex: BaseException) -> str:
    import pydsdl

    names = {c.__name__ for c in type(ex).__mro__}
    if isinstance(ex, pydsdl.SerDesError) and "ArrayLengthError" in names:
        return "array_length"
    if isinstance(ex, pydsdl.SerDesError) and "UnionTagError" in names:
        return "union_tag"
    if isinstance(ex, pydsdl.SerDesError) and "DelimiterHeaderError" in names:
        return "delimiter_header"
    if isinstance(ex, UnicodeDecodeError):
        return "utf8"
    if isinstance(ex, pydsdl.SerDesError):
        return "serdes:" + type(ex).__name__
    if isinstance(ex, ValueError):
        return "value_error"
    return "other:" + type(ex).__name__


def deserialize_outcome(t: typing.Any, spec: typing.Any, data: typing.Any, with_header: bool, what: str = "deserialize") -> typing.Tuple[str, typing.Any]:
    """('ok', model value) or ('error', category).  Any exception outside SerDesError / ValueError is a violation."""
    import pydsdl

    res, ex = guarded(
        pydsdl.deserialize, t, data, with_delimiter_header=with_header, allowed=(pydsdl.SerDesError, ValueError), what=what
    )
    if ex is not None:
        return "error", pydsdl_error_category(ex)
    return "ok", codec.from_python(spec, res)


def reference_outcome(spec: typing.Any, data: bytes, with_header: bool) -> typing.Tuple[str, typing.Any]:
    try:
        return "ok", codec.decode(spec, data, with_header)
    except codec.RefDecodeError as ex:
        return "error", ex.category


def same_outcome(spec: typing.Any, a: typing.Tuple[str, typing.Any], b: typing.Tuple[str, typing.Any]) -> bool:
    if a[0] != b[0]:
        return False
    if a[0] == "error":
        return a[1] == b[1]
    return codec.same(spec, a[1], b[1])


def max_bytes(spec: typing.Any, with_header: bool) -> int:
    from ..ref import bls

    s = spec if (with_header or spec[0] != "delim") else spec[1]
    return (bls.vmax(layout.tree(s)) + 7) // 8


def check_result_ownership(t: typing.Any, spec: typing.Any, data: typing.Any, with_header: bool, got: typing.Tuple[str, typing.Any], detail: str) -> None:
    """The object deserialize() returns belongs to the caller: no mutable part of it occurs twice in it, and scribbling all over it leaves
    no trace in what the next call returns for the same bytes (nothing handed out is kept and handed out again)."""
    import pydsdl

    raw1, _ = guarded(pydsdl.deserialize, t, data, with_delimiter_header=with_header, what="deserialize-again")
    seen_ids: typing.Dict[int, str] = {}

    def scribble(x: typing.Any, path: str) -> None:
        if isinstance(x, (dict, list, bytearray)):
            require(id(x) not in seen_ids, "result-shares-a-mutable-object", "distinct objects", "%s is %s" % (path, seen_ids.get(id(x))), detail)
            seen_ids[id(x)] = path
        if isinstance(x, dict):
            for k_, v_ in list(x.items()):
                scribble(v_, path + "." + str(k_))
                x[k_] = 123456789 if not isinstance(v_, (dict, list)) else v_
            x["scribbled"] = True
        elif isinstance(x, list):
            for i_, v_ in enumerate(list(x)):
                scribble(v_, path + "[%d]" % i_)
            x.append("scribbled")
            x.reverse()
        elif isinstance(x, bytearray):
            x[:] = b"scribbled"

    scribble(raw1, "result")
    fresh = deserialize_outcome(t, spec, data, with_header, what="deserialize-after-mutating-earlier-result")
    require(same_outcome(spec, fresh, got), "result-depends-on-mutation-of-earlier-result", got, fresh, detail)
