"""Shared by C06 / C07 / C14: building the pydsdl type of a spec and classifying outcomes of deserialize."""
from __future__ import annotations

import typing

from ..core import Violation, guarded, require
from ..gen.materialize import ApiBuilder
from ..ref import codec, layout


def build_type(spec: typing.Any) -> typing.Any:
    b = ApiBuilder()
    t, _ = guarded(b.build, spec, what="construct")
    return t


def pydsdl_error_category(ex: BaseException) -> str:
    import pydsdl

    names = {c.__name__ for c in type(ex).__mro__}
    if isinstance(ex, pydsdl.SerDesError) and "ArrayLengthError" in names:
        return "array_length"
    if isinstance(ex, pydsdl.SerDesError) and "UnionTagError" in names:
        return "union_tag"
    if isinstance(ex, pydsdl.SerDesError) and "DelimiterHeaderError" in names:
        return "delimiter_header"
    if isinstance(ex, UnicodeDecodeError):
        return "utf8"
    if isinstance(ex, pydsdl.SerDesError):
        return "serdes:" + type(ex).__name__
    if isinstance(ex, ValueError):
        return "value_error"
    return "other:" + type(ex).__name__


def deserialize_outcome(t: typing.Any, spec: typing.Any, data: typing.Any, with_header: bool, what: str = "deserialize") -> typing.Tuple[str, typing.Any]:
    """('ok', model value) or ('error', category).  Any exception outside SerDesError / ValueError is a violation."""
    import pydsdl

    res, ex = guarded(
        pydsdl.deserialize, t, data, with_delimiter_header=with_header, allowed=(pydsdl.SerDesError, ValueError), what=what
    )
    if ex is not None:
        return "error", pydsdl_error_category(ex)
    return "ok", codec.from_python(spec, res)


def reference_outcome(spec: typing.Any, data: bytes, with_header: bool) -> typing.Tuple[str, typing.Any]:
    try:
        return "ok", codec.decode(spec, data, with_header)
    except codec.RefDecodeError as ex:
        return "error", ex.category


def same_outcome(spec: typing.Any, a: typing.Tuple[str, typing.Any], b: typing.Tuple[str, typing.Any]) -> bool:
    if a[0] != b[0]:
        return False
    if a[0] == "error":
        return a[1] == b[1]
    return codec.same(spec, a[1], b[1])


def max_bytes(spec: typing.Any, with_header: bool) -> int:
    from ..ref import bls

    s = spec if (with_header or spec[0] != "delim") else spec[1]
    return (bls.vmax(layout.tree(s)) + 7) // 8
