"""C12 - constants are always compliant with their declared type."""
from __future__ import annotations

import os
import typing
from fractions import Fraction

from hypothesis import strategies as st

from ..core import Info, Part, Ctx, Violation, HarnessError, require, guarded
from ..ref import codec, layout

ID = "C12"
TITLE = "Constants are always compliant with their declared type"
RULE = (
    "(Values are also spelled as expressions of the same exact rational: p * b ** -k, decimal point forms, x + 0, 2 * (x) / 2 ...; boundaries +- 10**-400 / 2**-1075; part references: a later constant initialised through an earlier one - A, A + 1, A / 2, !A, A == literal - must comply with its own type for the stored value of A.)  "
    "Grid (enumerated completely): all 198 constant-capable types (bool; uint1..64 saturated/truncated; int2..64; float16/32/64 "
    "saturated/truncated) x {min-1, min, min+1, -1, 0, 1, max-1, max, max+1, min-1/2, max+1/2, max+1/1000, 1/2, 'a', '', 'ab', "
    "non-ASCII char, true, {1}} (floats: +-max, +-max*(1+2**-60), +-(max+1), 0, 1/3, 'a', true), each through DSDL text and through "
    "pydsdl.Constant; plus Hypothesis-drawn (type, rational) pairs around the boundaries with drawn spellings, and initialisers on "
    "types that cannot carry constants (void, arrays, utf8, byte, composites).  Oracle: exact ranges from the Specification formulas "
    "(Fractions); accept <=> right kind and in range; the stored value equals the initialiser's exact rational (never rounded), a "
    "one-character ASCII string is accepted only for 8-bit unsigned integers and stored as its code point (parts strings / strings-grid: every ASCII "
    "character in raw and escaped spellings and both quotes; single non-ASCII characters stratified by the shape of their NFC / NFD mapping - including "
    "the code points whose normal form is ASCII; ASCII base + combining mark; strings of 0 and 2..4 characters with none, one or several ASCII ones - "
    "on 8-bit unsigned and on other types).  Non-trivial = value within 1 "
    "(or a relative 2**-50) of a range boundary, or a non-rational initialiser."
)
ASSUMPTIONS = ["ranges: [-2**(n-1), 2**(n-1)-1], [0, 2**n-1], +-(2 - 2**-m) * 2**emax with (m, emax) = (10, 15), (23, 127), (52, 1023)"]
BUDGET = {"quick": 1200, "thorough": 24000}
# coverage-guided twins (thorough tier): part name -> executions per shard; see core.cover
COVER = {"random": 4000, "strings": 2000}

ROOT = "ns"


def all_types() -> typing.List[typing.Any]:
    out: typing.List[typing.Any] = [["bool"]]
    for w in range(1, 65):
        out.append(["uint", w, "sat"])
        out.append(["uint", w, "trunc"])
    for w in range(2, 65):
        out.append(["int", w])
    for w in (16, 32, 64):
        out.append(["float", w, "sat"])
        out.append(["float", w, "trunc"])
    return out


def value_range(spec: typing.Any) -> typing.Tuple[Fraction, Fraction]:
    k = spec[0]
    if k == "uint":
        return Fraction(0), Fraction(2 ** spec[1] - 1)
    if k == "int":
        return Fraction(-(2 ** (spec[1] - 1))), Fraction(2 ** (spec[1] - 1) - 1)
    if k == "float":
        m, emax = {16: (10, 15), 32: (23, 127), 64: (52, 1023)}[spec[1]]
        mx = (2 - Fraction(1, 2**m)) * Fraction(2) ** emax
        return -mx, mx
    raise ValueError(spec)


def type_text(spec: typing.Any) -> str:
    k = spec[0]
    if k == "bool":
        return "bool"
    if k == "uint":
        return ("truncated " if spec[2] == "trunc" else "") + "uint%d" % spec[1]
    if k == "int":
        return "int%d" % spec[1]
    if k == "float":
        return ("truncated " if spec[2] == "trunc" else "saturated ") + "float%d" % spec[1]
    raise ValueError(spec)


def string_literal(text: str, style: int = 0) -> str:
    """A DSDL spelling of the string: raw where possible or (style bit 0) escaped throughout; style bit 1 selects the quote."""
    q = "\"" if style & 2 else "'"
    out = []
    for ch in text:
        cp = ord(ch)
        if ch in "'\"\\":
            out.append("\\" + ch)
        elif ch.isprintable() and not (style & 1 and cp > 127) and not (style & 4 and style & 1):
            out.append(ch)
        elif ch in "\r\n\t" and not style & 4:
            out.append({"\r": "\\r", "\n": "\\n", "\t": "\\t"}[ch])
        else:
            out.append("\\u%04x" % cp if cp < 0x10000 and not style & 8 else "\\U%08X" % cp)
    return q + "".join(out) + q


def value_text(v: typing.Any, style: int = 0) -> str:
    """v: ["rat", p, q] | ["str", s] | ["bool", b] | ["set"]"""
    if v[0] == "rat" and style >= 64:
        # the same value reached through real literals with exponents of thousands of digits: nothing is ever rounded or limited by a
        # machine format on the way (0e5000 is zero, 1e-5000 is a perfectly good tiny rational), only the final value matters
        inner = value_text(v, style % 64)
        return ["%s + 0e5000", "(%s) * 1e4400 / 1e4400", "(%s) + 1e-5000 - 1e-5000"][(style // 64 - 1) % 3] % inner
    if v[0] == "rat" and style >= 8:
        # the same exact rational written as an expression (what is stored is the value of the expression, never a rounding of it)
        p, q = v[1], v[2]
        a, sign = abs(p), ("-" if p < 0 else "")
        e = (style // 8) % 8
        base = value_text(v, style % 8)
        if e == 1 and q > 1:
            for b in (10, 2, 3, 5, 7, 6):
                k, x = 0, q
                while x % b == 0:
                    x //= b
                    k += 1
                if x == 1:
                    return "%s%d * %d ** -%d" % (sign, a, b, k)
        if e == 7 and q > 1 and (10 ** 40) % q == 0 and q <= 10**30:
            k = next(k for k in range(1, 41) if (10**k) % q == 0)
            digits = str(a * (10**k // q)).rjust(k + 1, "0")
            return "%s%s.%s" % (sign, digits[:-k], digits[-k:])
        if e == 2:
            return base + " + 0"
        if e == 3:
            return "(%s) * 1" % base
        if e == 4:
            return base + " - 1 + 1"
        if e == 5:
            return "2 * (%s) / 2" % base
        if e == 6:
            return "(%s) ** 1" % base
        return base
    style = style % 8 if v[0] == "rat" else style
    if v[0] == "rat":
        p, q = v[1], v[2]
        a = abs(p)
        if q == 1:
            body = [str(a), hex(a), "0b" + bin(a)[2:], "0o" + oct(a)[2:]][style % 4] if style else str(a)
            return ("-" if p < 0 else "") + body
        return ("-" if p < 0 else "") + "%d/%d" % (a, q) if not style % 2 else ("-" if p < 0 else "") + "%d / %s" % (a, hex(q))
    if v[0] == "str":
        return string_literal(v[1], style)
    if v[0] == "bool":
        return "true" if v[1] else "false"
    if v[0] == "set":
        return "{1}"
    raise ValueError(v)


def expected(spec: typing.Any, v: typing.Any) -> typing.Tuple[bool, typing.Any]:
    """(accepted?, stored value as Fraction / bool)"""
    k = spec[0]
    if k == "bool":
        return (v[0] == "bool"), (v[1] if v[0] == "bool" else None)
    if v[0] == "rat":
        x = Fraction(v[1], v[2])
        lo, hi = value_range(spec)
        if k in ("uint", "int") and x.denominator != 1:
            return False, None
        return (lo <= x <= hi), x
    if v[0] == "str" and k == "uint" and spec[1] == 8:
        s = v[1]
        if len(s) == 1 and ord(s) < 128:
            return True, Fraction(ord(s))
        return False, None
    return False, None


def grid_values(spec: typing.Any) -> typing.List[typing.Any]:
    k = spec[0]
    others = [["str", "a"], ["str", ""], ["str", "ab"], ["str", "é"], ["str", "ÿ"], ["bool", True], ["set"]]
    if k == "bool":
        return [["bool", True], ["bool", False], ["rat", 0, 1], ["rat", 1, 1], ["str", "a"], ["set"]]
    lo, hi = value_range(spec)
    if k in ("uint", "int"):
        lo_i, hi_i = int(lo), int(hi)
        pts = sorted({lo_i - 1, lo_i, lo_i + 1, -1, 0, 1, hi_i - 1, hi_i, hi_i + 1, 2 * hi_i + 1, 2 * lo_i - 1 if lo_i else -2})
        vals = [["rat", p, 1] for p in pts]
        vals += [["rat", 2 * lo_i - 1, 2], ["rat", 2 * hi_i + 1, 2], ["rat", 1000 * hi_i + 1, 1000], ["rat", 1, 2], ["rat", 2 * hi_i - 1, 2]]
        return vals + others
    mx = hi
    eps = Fraction(1, 2**60)
    fr = [mx, -mx, mx * (1 + eps), -mx * (1 + eps), mx + 1, -mx - 1, mx * (1 - eps), Fraction(0), Fraction(1, 3), Fraction(-1, 3), mx / 2 + Fraction(1, 7), 2 * mx]
    return [["rat", f.numerator, f.denominator] for f in fr] + [["str", "a"], ["bool", True], ["set"]]


def _near_boundary(spec: typing.Any, v: typing.Any) -> bool:
    if v[0] != "rat" or spec[0] == "bool":
        return v[0] != "rat"
    x = Fraction(v[1], v[2])
    lo, hi = value_range(spec)
    if spec[0] == "float":
        return any(abs(x - b) <= abs(b) * Fraction(1, 2**50) for b in (lo, hi))
    return any(abs(x - b) <= 1 for b in (lo, hi))


def check_constant(case: typing.Any, ctx: Ctx) -> Info:
    import pydsdl

    spec, v, style = case["type"], case["value"], case.get("style", 0)
    accept, stored = expected(spec, v)
    # ---- through DSDL text
    source = "%s X = %s\n@sealed\n" % (type_text(spec), value_text(v, style))
    d = ctx.scratch()
    try:
        os.makedirs(os.path.join(d, ROOT))
        with open(os.path.join(d, ROOT, "K.1.0.dsdl"), "w") as f:
            f.write(source)
        res, ex = guarded(pydsdl.read_namespace, os.path.join(d, ROOT), [], allowed=(pydsdl.InvalidDefinitionError,), what="read")
    finally:
        ctx.cleanup(d)
    kind = spec[0] + (str(spec[1]) if len(spec) > 1 else "")
    if accept:
        require(ex is None, "valid-constant-rejected:" + spec[0], "accepted", "%s: %s" % (type(ex).__name__, ex), source)
        c = res[0].constants[0]
        _check_stored(c, spec, stored, source)
    else:
        require(ex is not None, "invalid-constant-accepted:" + spec[0] + ":" + v[0], "InvalidDefinitionError", "accepted", source)
    # ---- through the API
    if v[0] == "rat":
        val: typing.Any = pydsdl.Rational(Fraction(v[1], v[2]))
    elif v[0] == "str":
        val = pydsdl.String(v[1])
    elif v[0] == "bool":
        val = pydsdl.Boolean(v[1])
    else:
        val = pydsdl.Set([pydsdl.Rational(1)])
    P = pydsdl.PrimitiveType.CastMode
    if spec[0] == "bool":
        t: typing.Any = pydsdl.BooleanType()
    elif spec[0] == "uint":
        t = pydsdl.UnsignedIntegerType(spec[1], P.SATURATED if spec[2] == "sat" else P.TRUNCATED)
    elif spec[0] == "int":
        t = pydsdl.SignedIntegerType(spec[1], P.SATURATED)
    else:
        t = pydsdl.FloatType(spec[1], P.SATURATED if spec[2] == "sat" else P.TRUNCATED)
    c, ex = guarded(pydsdl.Constant, t, "X", val, allowed=(pydsdl.InvalidDefinitionError,), what="Constant")
    if accept:
        require(ex is None, "valid-constant-rejected:api:" + spec[0], "accepted", repr(ex), source)
        _check_stored(c, spec, stored, "API " + source)
    else:
        require(ex is not None, "invalid-constant-accepted:api:" + spec[0] + ":" + v[0], "InvalidDefinitionError", "accepted", "API " + source)
    near = _near_boundary(spec, v)
    return Info(near, ["type:" + spec[0], "accept" if accept else "reject", "value:" + v[0]] + (["near-boundary"] if near else []), sample=source)


def _check_stored(c: typing.Any, spec: typing.Any, stored: typing.Any, source: str) -> None:
    import pydsdl

    if spec[0] == "bool":
        require(isinstance(c.value, pydsdl.Boolean) and c.value.native_value is stored, "stored-value:bool", stored, repr(c.value), source)
        return
    require(isinstance(c.value, pydsdl.Rational), "stored-kind", "Rational", repr(c.value), source)
    nv = c.value.native_value
    require(isinstance(nv, Fraction) and nv == stored, "stored-value:" + spec[0], str(stored), repr(nv), source)
    lo, hi = value_range(spec)
    require(lo <= nv <= hi, "stored-out-of-range", "[%s, %s]" % (lo, hi), str(nv), source)
    rng = c.data_type.inclusive_value_range
    require(Fraction(rng.min) == lo and Fraction(rng.max) == hi, "inclusive_value_range", (str(lo), str(hi)), (str(rng.min), str(rng.max)), source)


def _grid(ctx: Ctx) -> typing.Iterable[typing.Any]:
    for spec in all_types():
        for v in grid_values(spec):
            yield {"type": spec, "value": v, "style": 0}


def check_incapable(case: typing.Any, ctx: Ctx) -> Info:
    """Only boolean, integer and float types can carry constants."""
    import pydsdl

    source = "%s X = %s\n@sealed\n" % (case["type_text"], case["value_text"])
    d = ctx.scratch()
    try:
        os.makedirs(os.path.join(d, ROOT))
        with open(os.path.join(d, ROOT, "K.1.0.dsdl"), "w") as f:
            f.write(source)
        with open(os.path.join(d, ROOT, "Dep.1.0.dsdl"), "w") as f:
            f.write("uint8 a\n@sealed\n")
        res, ex = guarded(pydsdl.read_namespace, os.path.join(d, ROOT), [], allowed=(pydsdl.InvalidDefinitionError,), what="read")
    finally:
        ctx.cleanup(d)
    require(ex is not None, "constant-of-incapable-type-accepted", "InvalidDefinitionError", "accepted", source)
    return Info(True, ["incapable:" + case["type_text"].split("[")[0].split(".")[0]], sample=source)


def _random_cases() -> st.SearchStrategy:
    def with_value(spec: typing.Any) -> st.SearchStrategy:
        if spec[0] == "bool":
            return st.sampled_from([["bool", True], ["bool", False], ["rat", 1, 1], ["str", "x"]]).map(lambda v: {"type": spec, "value": v})
        lo, hi = value_range(spec)
        anchors = st.sampled_from([lo, hi, Fraction(0)])
        if spec[0] == "float":
            delta = st.one_of(
                st.integers(-3, 3).map(Fraction),
                st.tuples(st.integers(-5, 5), st.integers(1, 80)).map(lambda t: Fraction(t[0], 2 ** t[1])),
                st.fractions(min_value=-2, max_value=2, max_denominator=1000),
            )
            rel = st.tuples(anchors, st.integers(-4, 4), st.integers(40, 70)).map(lambda t: t[0] * (1 + Fraction(t[1], 2 ** t[2])))
            # differences far below the resolution of any binary float: a value is in range or not, exactly
            tiny = st.tuples(st.sampled_from([-1, 1, 3]), st.sampled_from([(10, 20), (10, 100), (10, 400), (2, 1075), (2, 1100), (3, 700)])).map(lambda t: Fraction(t[0], t[1][0] ** t[1][1]))
            vals = st.one_of(st.tuples(anchors, delta).map(lambda t: t[0] + t[1]), rel, st.fractions(min_value=lo, max_value=hi), st.tuples(anchors, tiny).map(lambda t: t[0] + t[1]))
        else:
            delta = st.one_of(st.integers(-3, 3).map(Fraction), st.fractions(min_value=-3, max_value=3, max_denominator=16),
                              st.tuples(st.sampled_from([-1, 1]), st.sampled_from([10**3, 10**20, 10**400, 2**70, 3**5])).map(lambda t: Fraction(t[0], t[1])))
            vals = st.one_of(st.tuples(anchors, delta).map(lambda t: t[0] + t[1]), st.integers(int(lo), int(hi)).map(Fraction))
        rat = vals.map(lambda f: ["rat", f.numerator, f.denominator])
        chars = st.characters(blacklist_categories=("Cs",), blacklist_characters="\r\n").map(lambda c: ["str", c])
        return st.one_of(rat, rat, rat, chars, st.text(alphabet="ab", min_size=2, max_size=3).map(lambda s: ["str", s])).map(
            lambda v: {"type": spec, "value": v}
        )

    return st.sampled_from(all_types()).flatmap(with_value).flatmap(lambda c: st.one_of(st.integers(0, 63), st.integers(0, 63), st.integers(0, 63), st.integers(64, 255)).map(lambda s: dict(c, style=s)))


# ---------------------------------------------------------------------------------------------------------------------
# A constant used by a later constant of the same definition: what the name stands for is the *stored* value (the code point of a
# character initialiser, the exact rational, the boolean), and the later constant must comply with its own type just the same.

REF_FORMS = ["A", "A + 1", "A * 2", "A / 2", "-A", "!A", "A == LIT", "A != LIT", "A - 1", "A % 7", "A + A / 1000"]


def _apply_form(form: str, val: typing.Any) -> typing.Any:
    """Model: the value of `form` when A holds val (Fraction or bool); None = undefined (invalid definition)."""
    is_bool = isinstance(val, bool)
    if form == "A":
        return val
    if form in ("A == LIT", "A != LIT"):
        return form == "A == LIT"
    if form == "!A":
        return (not val) if is_bool else None
    if is_bool:
        return None
    return {"A + 1": val + 1, "A * 2": val * 2, "A / 2": val / 2, "-A": -val, "A - 1": val - 1, "A % 7": val % 7, "A + A / 1000": val + val / 1000}[form]


def check_reference(case: typing.Any, ctx: Ctx) -> Info:
    import pydsdl

    spec1, v1, spec2, form = case["first"]["type"], case["first"]["value"], case["second"], REF_FORMS[case["form"] % len(REF_FORMS)]
    ok1, stored1 = expected(spec1, v1)
    if not ok1:
        return Info(False, ["first-constant-invalid"])
    lit = ("true" if stored1 else "false") if isinstance(stored1, bool) else "(%d/%d)" % (stored1.numerator, stored1.denominator)
    text2 = form.replace("LIT", lit)
    val2 = _apply_form(form, stored1)
    if val2 is None:
        accept, stored2 = False, None
    elif isinstance(val2, bool):
        accept, stored2 = expected(spec2, ["bool", val2])
    else:
        accept, stored2 = expected(spec2, ["rat", val2.numerator, val2.denominator])
    gap = case.get("gap", 0)
    filler = ["", "# a comment", "uint8 between", "@assert true", "void3"][gap % 5]
    source = "%s A = %s\n%s%s B = %s\n@sealed\n" % (type_text(spec1), value_text(v1, case.get("style", 0)), (filler + "\n") if gap else "", type_text(spec2), text2)
    other = case.get("request")
    if other is not None:
        # the pair under test is the *response* of a service whose request declares - and uses - constants of the same names with
        # other types / values: what A stands for is decided per section
        ok_r, stored_r = expected(other["type"], other["value"])
        if ok_r:
            lit_r = ("true" if stored_r else "false") if isinstance(stored_r, bool) else "(%d/%d)" % (stored_r.numerator, stored_r.denominator)
            source = "%s A = %s\n@assert A == %s\nbool B = A == %s\n@sealed\n---\n" % (type_text(other["type"]), value_text(other["value"], 0), lit_r, lit_r) + source
    d = ctx.scratch()
    try:
        os.makedirs(os.path.join(d, ROOT))
        with open(os.path.join(d, ROOT, "K.1.0.dsdl"), "w") as f:
            f.write(source)
        res, ex = guarded(pydsdl.read_namespace, os.path.join(d, ROOT), [], allowed=(pydsdl.InvalidDefinitionError,), what="read")
    finally:
        ctx.cleanup(d)
    if accept:
        require(ex is None, "valid-constant-rejected:by-reference:" + spec2[0], "accepted", "%s: %s" % (type(ex).__name__, ex), source)
        section = res[0].response_type if isinstance(res[0], pydsdl.ServiceType) else res[0]
        consts = {c.name: c for c in section.constants}
        _check_stored(consts["A"], spec1, stored1, source)
        _check_stored(consts["B"], spec2, stored2, source)
    else:
        require(ex is not None, "invalid-constant-accepted:by-reference:" + spec2[0], "InvalidDefinitionError", "accepted", source)
    near = val2 is not None and not isinstance(val2, bool) and spec2[0] != "bool" and _near_boundary(spec2, ["rat", val2.numerator, val2.denominator])
    return Info(True, ["by-reference", "first:" + v1[0], "form:" + form, "accept" if accept else "reject"] + (["near-boundary"] if near else []) + (["response-of-a-service"] if "---" in source else []), sample=source)


def _reference_cases() -> st.SearchStrategy:
    firsts = st.one_of(
        _random_cases(),
        st.tuples(st.sampled_from([["uint", 8, "sat"], ["uint", 8, "trunc"]]), st.integers(0, 127).map(chr), st.integers(0, 15)).map(lambda t: {"type": t[0], "value": ["str", t[1]], "style": t[2]}),
        st.sampled_from([True, False]).map(lambda b: {"type": ["bool"], "value": ["bool", b], "style": 0}),
    )
    seconds = st.one_of(st.sampled_from(all_types()), st.sampled_from([["uint", 8, "sat"], ["uint", 7, "sat"], ["int", 8], ["uint", 16, "sat"], ["float", 16, "sat"], ["bool"]]))
    return st.tuples(firsts, seconds, st.integers(0, len(REF_FORMS) - 1), st.integers(0, 4), st.one_of(st.none(), st.none(), firsts)).map(
        lambda t: {"first": {"type": t[0]["type"], "value": t[0]["value"]}, "style": t[0].get("style", 0), "second": t[1], "form": t[2], "gap": t[3],
                   "request": None if t[4] is None else {"type": t[4]["type"], "value": t[4]["value"]}}
    )


STRING_TYPES = [["uint", 8, "sat"], ["uint", 8, "trunc"], ["uint", 8, "sat"], ["uint", 7, "sat"], ["uint", 9, "sat"], ["uint", 16, "trunc"], ["uint", 64, "sat"],
                ["int", 8], ["int", 16], ["float", 32, "sat"], ["bool"]]


def _string_cases() -> st.SearchStrategy:
    """String initialisers: accepted only as exactly one ASCII character on an 8-bit unsigned integer."""
    from ..gen import expr as gexpr

    ascii1 = st.integers(0, 127).map(chr)
    pair = gexpr.nfc_pair()  # (code point, its other normal form): includes the mappings onto ASCII and the ASCII base + combining mark spellings
    nonascii1 = st.one_of(pair.map(lambda t: t[0]), st.integers(128, 255).map(chr), st.characters(min_codepoint=256, blacklist_categories=("Cs",)))
    piece = st.one_of(ascii1, nonascii1, pair.map(lambda t: t[1]))
    several = st.lists(piece, min_size=2, max_size=4).map("".join)
    one_ascii_among = st.tuples(ascii1, st.lists(nonascii1, min_size=1, max_size=3), st.integers(0, 3)).map(lambda t: "".join(t[1][: t[2]]) + t[0] + "".join(t[1][t[2] :]))
    text = st.one_of(ascii1, ascii1, nonascii1, pair.map(lambda t: t[1]), several, one_ascii_among, st.just(""))
    return st.tuples(st.sampled_from(STRING_TYPES), text, st.integers(0, 15)).map(lambda t: {"type": t[0], "value": ["str", t[1]], "style": t[2]})


def _string_grid(ctx: Ctx) -> typing.Iterable[typing.Any]:
    for cast in ("sat", "trunc"):
        for cp in range(128):
            for style in (0, 1, 7):
                yield {"type": ["uint", 8, cast], "value": ["str", chr(cp)], "style": style}


def parts(ctx: Ctx) -> typing.List[Part]:
    incapable = st.fixed_dictionaries(
        {
            "type_text": st.sampled_from(["void8", "void1", "uint8[2]", "uint8[<=2]", "bool[3]", "utf8", "byte", "utf8[<=4]", "byte[4]", "Dep.1.0", "ns.Dep.1.0", "Dep.1.0[2]", "float32[<2]"]),
            "value_text": st.sampled_from(["1", "0", "true", "'a'", "{1}", "1.5", "255"]),
        }
    )
    return [
        Part("grid", None, check_constant, weight=0, grid=_grid),
        Part("random", _random_cases(), check_constant, weight=4),
        Part("strings", _string_cases(), check_constant, weight=2),
        Part("references", _reference_cases(), check_reference, weight=2),
        Part("strings-grid", None, check_constant, weight=0, grid=_string_grid),
        Part("incapable", incapable, check_incapable, weight=1, min_examples=10),
    ]
