"""C14 - delimited (appendable) types evolve without breaking containers or the wire."""
from __future__ import annotations

import typing

from hypothesis import strategies as st

from ..core import Info, Part, Ctx, Violation, HarnessError, require, guarded
from ..gen import types as gt
from ..ref import bls as rbls
from ..ref import codec, layout
from . import _codec_common as cc

ID = "C14"
TITLE = "Delimited (appendable) types evolve without breaking containers or the wire"
RULE = (
    "Cases are (field list F, extra trailing fields E, extent slack, container template with a hole, value): D = delimited struct F and "
    "D' = delimited struct F+E get the same extent and fill the hole of a container built from 1..3 nested wrappers (struct field with "
    "preceding / following members incl. sub-byte ones, fixed / variable array element, union variant, delimited struct); the value is "
    "drawn for the container with D'.  Oracles: layout - bit_length_set (min, max, residues mod 8..64, explicit when small), extent and "
    "the offsets of all top-level fields are identical for the two containers; wire - old writer / new reader and new writer / old "
    "reader results equal the value transformed by the model (extras dropped, or read as zero / empty / first variant) and equal the "
    "independent reference decoder.  Non-trivial = the hole is followed by a member, or sits in an array holding >= 2 elements."
)
ASSUMPTIONS = ["revisions are structures whose field lists are prefix-related (the statement's 'appends or removes trailing fields')"]
BUDGET = {"quick": 800, "thorough": 16000}
# coverage-guided twins (thorough tier): part name -> executions per shard; see core.cover
COVER = {"evolution": 2500}

HOLE = ["hole"]


def subst(t: typing.Any, x: typing.Any) -> typing.Any:
    if t == HOLE or t == ("hole",):
        return x
    k = t[0]
    if k in ("fixed", "var"):
        return [k, subst(t[1], x), t[2]]
    if k in ("struct", "union"):
        return [k, [[n, subst(ft, x)] for n, ft in t[1]]]
    if k == "delim":
        return [k, subst(t[1], x), t[2]]
    return t


def transform(t: typing.Any, v: typing.Any, f: typing.Callable[[typing.Any], typing.Any]) -> typing.Any:
    """Apply f to every value sitting in the hole of template t."""
    if t == HOLE or t == ("hole",):
        return f(v)
    k = t[0]
    if k in ("fixed", "var"):
        return [transform(t[1], x, f) for x in v] if isinstance(v, list) else v
    if k == "delim":
        return transform(t[1], v, f)
    if k in ("struct", "union"):
        types = {n: ft for n, ft in t[1] if n}
        return {n: transform(types[n], x, f) for n, x in v.items()}
    return v


def contains_hole(t: typing.Any) -> bool:
    if t == HOLE or t == ("hole",):
        return True
    k = t[0]
    if k in ("fixed", "var", "delim"):
        return contains_hole(t[1])
    if k in ("struct", "union"):
        return any(contains_hole(ft) for _, ft in t[1])
    return False


def _bls_summary(b: typing.Any, tree: typing.Any) -> typing.Any:
    out: typing.Dict[str, typing.Any] = {"min": b.min, "max": b.max}
    for d in (8, 16, 32, 64):
        try:
            if rbls.modulo_cost(tree, d) <= 40_000:
                out["mod%d" % d] = sorted(set(b % d))
        except rbls.TooBig:
            pass
    if rbls.expansion_tractable(rbls.freeze(tree), 2000, 50_000, 300_000):
        out["set"] = sorted(set(b))
    return out


def zero_value(t: typing.Any) -> typing.Any:
    return codec.decode_value(codec.Reader([]), t)


def check_evolution(case: typing.Any, ctx: Ctx) -> Info:
    import pydsdl

    F = case["fields"]
    E = case["extra"]
    template = case["container"]
    inner_old = layout.freeze(["struct", F])
    inner_new = layout.freeze(["struct", F + E])
    ext = max(layout.inner_max(inner_old), layout.inner_max(inner_new)) + 8 * case["slack"]
    d_old = ["delim", ["struct", F], (ext - layout.inner_max(inner_old)) // 8]
    d_new = ["delim", ["struct", F + E], (ext - layout.inner_max(inner_new)) // 8]
    c_old = layout.freeze(subst(template, d_old))
    c_new = layout.freeze(subst(template, d_new))
    t_old = cc.build_type(c_old)
    t_new = cc.build_type(c_new)
    name = "old %s / new %s" % (layout.type_string(c_old)[:250], layout.type_string(c_new)[:250])

    # ---- layout of the container is untouched by the revision
    e_old, _ = guarded(lambda: t_old.extent, what="extent")
    e_new, _ = guarded(lambda: t_new.extent, what="extent")
    require(e_old == e_new, "container-extent-changed", e_old, e_new, name)
    s_old = _bls_summary(t_old.bit_length_set, layout.tree(c_old))
    s_new = _bls_summary(t_new.bit_length_set, layout.tree(c_new))
    require(s_old == s_new, "container-bit-length-set-changed", s_old, s_new, name)
    body_old = c_old[1] if c_old[0] == "delim" else c_old
    offs_old, _ = guarded(lambda: list(t_old.iterate_fields_with_offsets()), what="iterate_fields_with_offsets")
    offs_new, _ = guarded(lambda: list(t_new.iterate_fields_with_offsets()), what="iterate_fields_with_offsets")
    require([f.name for f, _ in offs_old] == [f.name for f, _ in offs_new], "container-fields-changed", [f.name for f, _ in offs_old], [f.name for f, _ in offs_new])
    if body_old[0] == "struct":
        base = 32 if c_old[0] == "delim" else 0
        for i, ((fo, oo), (fn, on)) in enumerate(zip(offs_old, offs_new)):
            tr = ("cat", (("leaf", (base,)), layout.struct_body(body_old[1], upto=i)))
            a = layout.alignment(body_old[1][i][1])
            if a > 1:
                tr = ("pad", tr, a)
            so, sn = _bls_summary(oo, tr), _bls_summary(on, tr)
            require(so == sn, "following-field-offset-changed", so, sn, "field %r of %s" % (fo.name, name))

    # ---- wire compatibility in both directions
    v_new = case["value"]
    extra_names = [n for n, _ in E if n]
    extra_types = {n: t for n, t in E if n}

    def drop(h: typing.Any) -> typing.Any:
        return {k: x for k, x in h.items() if k not in extra_names}

    def add_zero(h: typing.Any) -> typing.Any:
        return dict(h, **{n: zero_value(extra_types[n]) for n in extra_names})

    frozen_template = layout.freeze(template)
    v_old = transform(frozen_template, v_new, drop)
    norm_new = codec.normalise(c_new, v_new)
    norm_old = codec.normalise(c_old, v_old)

    data_old, _ = guarded(pydsdl.serialize, t_old, codec.to_python(c_old, v_old), what="serialize-old")
    data_new, _ = guarded(pydsdl.serialize, t_new, codec.to_python(c_new, v_new), what="serialize-new")
    # what goes over the wire is the Specification's encoding of each revision (otherwise nothing below means anything; the model is
    # cross-checked against the reference decoder on bytes that the reference encoder produced, never on the library's)
    for what, spec_, v_, data_ in (("old", c_old, v_old, data_old), ("new", c_new, v_new, data_new)):
        ref_bytes = codec.bits_to_bytes(codec.encode(spec_, v_, False).bits)
        require(data_ == ref_bytes, "revision-encoding:" + what, ref_bytes.hex(), data_.hex() if isinstance(data_, bytes) else repr(data_), "%s value %r" % (layout.type_string(spec_)[:250], v_))

    # old writer -> new reader: fields unknown to the writer read as zero / empty, the rest is intact
    got = cc.deserialize_outcome(t_new, c_new, data_old, False, what="deserialize-new-from-old")
    exp_model = ("ok", transform(frozen_template, norm_old, add_zero))
    exp_ref = cc.reference_outcome(c_new, data_old, False)
    if not cc.same_outcome(c_new, exp_model, exp_ref):
        raise HarnessError("evolution model and reference decoder disagree: %r vs %r" % (exp_model, exp_ref))
    require(cc.same_outcome(c_new, got, exp_model), "old-writer-new-reader", exp_model, got, "%s bytes %s" % (name, data_old.hex()))
    # the values supplied for fields the writer did not know are the caller's like everything else in the result
    cc.check_result_ownership(t_new, c_new, data_old, False, got, "old-writer-new-reader: %s bytes %s" % (name, data_old.hex()))

    # new writer -> old reader: fields unknown to the reader are skipped, everything after the nested object is intact
    got = cc.deserialize_outcome(t_old, c_old, data_new, False, what="deserialize-old-from-new")
    exp_model = ("ok", transform(frozen_template, norm_new, drop))
    exp_ref = cc.reference_outcome(c_old, data_new, False)
    if not cc.same_outcome(c_old, exp_model, exp_ref):
        raise HarnessError("evolution model and reference decoder disagree: %r vs %r" % (exp_model, exp_ref))
    require(cc.same_outcome(c_old, got, exp_model), "new-writer-old-reader", exp_model, got, "%s bytes %s" % (name, data_new.hex()))

    classes = ["wrappers:%d" % len(case.get("wrappers", [])), "extra:%d" % len(E)] + ["w:" + w for w in case.get("wrappers", [])]
    followed = case.get("followed", False)
    in_array2 = case.get("array_elems", 0) >= 2
    if followed:
        classes.append("hole-followed")
    if in_array2:
        classes.append("hole-in-array>=2")
    return Info(bool(followed or in_array2), classes, sample={"old": layout.type_string(c_old)[:300], "new": layout.type_string(c_new)[:300], "value": v_new})


def _prim_fields(min_size: int, max_size: int, prefix: str) -> st.SearchStrategy:
    t = st.one_of(
        gt.primitive(),
        gt.primitive(),
        st.integers(1, 17).map(lambda n: ["void", n]),
        st.tuples(gt.primitive(), st.integers(1, 4)).map(lambda x: ["var", x[0], x[1]]),
        st.tuples(gt.primitive(), st.integers(1, 3)).map(lambda x: ["fixed", x[0], x[1]]),
        st.integers(1, 5).map(lambda c: ["var", ["utf8"], c]),
        st.integers(1, 6).map(lambda c: ["fixed", ["byte"], c]),
        st.integers(1, 6).map(lambda c: ["var", ["byte"], c]),
        st.just(["struct", [["q", ["uint", 3, "sat"]], ["r", ["var", ["bool"], 3]]]]),
        st.just(["union", [["q", ["uint", 3, "sat"]], ["r", ["float", 16, "sat"]]]]),
        st.just(["delim", ["struct", [["q", ["int", 9]]]], 1]),
    )

    def name_them(ts: typing.List[typing.Any]) -> typing.List[typing.Any]:
        return [["" if x[0] == "void" else "%s%d" % (prefix, i), x] for i, x in enumerate(ts)]

    return st.lists(t, min_size=min_size, max_size=max_size).map(name_them)


def _containers() -> st.SearchStrategy:
    """(template, wrappers used, hole followed by a member?)"""

    wrapper = st.sampled_from(["struct", "struct", "fixed", "var", "union", "delim"])

    def build(args: typing.Tuple[typing.List[str], typing.List[typing.Any], typing.List[typing.Any], typing.List[int]]) -> typing.Any:
        ws, pres, posts, caps = args
        t: typing.Any = HOLE
        followed = False
        for i, w in enumerate(ws):
            if w in ("fixed", "var"):
                if t[0] in ("fixed", "var"):
                    w = "struct"  # no arrays of arrays
                else:
                    t = [w, t, caps[i % len(caps)]]
                    continue
            if w in ("struct", "delim"):
                pre = [["p%d_%s" % (i, n) if n else "", ft] for n, ft in pres[i % len(pres)]]
                post = [["s%d_%s" % (i, n) if n else "", ft] for n, ft in posts[i % len(posts)]]
                if any(n for n, _ in post):
                    followed = True
                t = ["struct", pre + [["h%d" % i, t]] + post]
                if w == "delim":
                    t = ["delim", t, i % 3]
            elif w == "union":
                t = ["union", [["u%d" % i, ["uint", 5, "sat"]], ["h%d" % i, t], ["w%d" % i, ["var", ["uint", 8, "sat"], 2]]]]
        if t[0] not in ("struct", "union", "delim"):
            t = ["struct", [["top", t], ["tail", ["uint", 7, "sat"]]]]
            followed = True
        return {"container": t, "wrappers": ws, "followed": followed}

    return st.tuples(
        st.lists(wrapper, min_size=1, max_size=3),
        st.lists(_prim_fields(0, 2, "x"), min_size=1, max_size=3),
        st.lists(_prim_fields(0, 3, "y"), min_size=1, max_size=3),
        st.lists(st.integers(1, 3), min_size=1, max_size=3),
    ).map(build)


def _cases() -> st.SearchStrategy:
    def with_value(args: typing.Tuple[typing.Any, typing.Any, typing.Any, int]) -> st.SearchStrategy:
        cont, F, E, slack = args
        inner_old = layout.freeze(["struct", F])
        inner_new = layout.freeze(["struct", F + E])
        ext = max(layout.inner_max(inner_old), layout.inner_max(inner_new)) + 8 * slack
        d_new = ["delim", ["struct", F + E], (ext - layout.inner_max(inner_new)) // 8]
        c_new = layout.freeze(subst(cont["container"], d_new))

        def finish(v: typing.Any) -> typing.Any:
            elems = [0]

            def count(t: typing.Any, x: typing.Any) -> None:
                if t == ("hole",):
                    return
                if t[0] in ("fixed", "var") and isinstance(x, list):
                    if contains_hole(t[1]):
                        elems[0] = max(elems[0], len(x))
                    for y in x:
                        count(t[1], y)
                elif t[0] == "delim":
                    count(t[1], x)
                elif t[0] in ("struct", "union"):
                    types = {n: ft for n, ft in t[1] if n}
                    for n, y in x.items():
                        count(types[n], y)

            count(layout.freeze(cont["container"]), v)
            return dict(cont, fields=F, extra=E, slack=slack, value=v, array_elems=elems[0])

        return gt.values(c_new).map(finish)

    return st.tuples(_containers(), _prim_fields(0, 4, "f"), _prim_fields(1, 3, "e"), st.integers(0, 3)).flatmap(with_value)


# ----------------------------------------------------------------------------------------------------------------------
# Two levels revised independently: a delimited type D nested in a delimited type O, both with an older and a newer revision
# (trailing fields appended); any of the four writer combinations is read by any of the four reader combinations.


def _two_level_specs(case: typing.Any) -> typing.Dict[typing.Tuple[int, int], typing.Any]:
    F, E, pre, G = case["fields"], case["extra"], case["pre"], case["outer_extra"]
    ext_d = layout.inner_max(layout.freeze(["struct", F + E])) + 8 * case["slack"]

    def d(new: int) -> typing.Any:
        body = ["struct", F + (E if new else [])]
        return ["delim", body, (ext_d - layout.inner_max(layout.freeze(body))) // 8]

    def o_body(onew: int, dnew: int) -> typing.Any:
        return ["struct", pre + [["h", d(dnew)]] + (G if onew else [])]

    ext_o = layout.inner_max(layout.freeze(o_body(1, 1))) + 8 * case["outer_slack"]
    out = {}
    for onew in (0, 1):
        for dnew in (0, 1):
            body = o_body(onew, dnew)
            o = ["delim", body, (ext_o - layout.inner_max(layout.freeze(body))) // 8]
            top = o if case["top"] == 0 else ["struct", [["lead", ["uint", 3, "sat"]], ["o", o], ["tail", ["uint", 16, "sat"]]]] if case["top"] == 1 else ["struct", [["arr", ["var", o, 2]], ["tail", ["uint", 8, "sat"]]]]
            out[(onew, dnew)] = layout.freeze(top)
    return out


def check_two_level(case: typing.Any, ctx: Ctx) -> Info:
    import pydsdl

    specs = _two_level_specs(case)
    types = {k: cc.build_type(s) for k, s in specs.items()}
    e_names = [n for n, _ in case["extra"] if n]
    g_names = [n for n, _ in case["outer_extra"] if n]
    # containers of every combination have one layout
    summaries = {k: (types[k].extent, _bls_summary(types[k].bit_length_set, layout.tree(specs[k]))) for k in specs}
    for k in specs:
        require(summaries[k] == summaries[(1, 1)], "container-layout-changed:two-level", summaries[(1, 1)], summaries[k], "combination %r of %s" % (k, layout.type_string(specs[(1, 1)])[:300]))

    def reduce(v: typing.Any, onew: int, dnew: int) -> typing.Any:
        def one(o: typing.Any) -> typing.Any:
            o = {k: x for k, x in o.items() if onew or k not in g_names}
            if "h" in o and not dnew:
                o = dict(o, h={k: x for k, x in o["h"].items() if k not in e_names})
            return o

        if case["top"] == 0:
            return one(v)
        if case["top"] == 1:
            return dict(v, o=one(v["o"])) if "o" in v else v
        return dict(v, arr=[one(x) for x in v.get("arr", [])])

    pair = case["pair"]
    combos = [(a, b) for a in specs for b in specs]
    order = [combos[(pair + i * 5) % len(combos)] for i in range(6)] + [((0, 1), (1, 0)), ((1, 0), (0, 1))]
    checked = 0
    for wk, rk in order:
        vw = reduce(case["value"], *wk)
        data, _ = guarded(pydsdl.serialize, types[wk], codec.to_python(specs[wk], vw), what="serialize:two-level")
        got = cc.deserialize_outcome(types[rk], specs[rk], data, False, what="deserialize:two-level")
        exp = cc.reference_outcome(specs[rk], data, False)
        require(cc.same_outcome(specs[rk], got, exp), "two-level:writer-%d%d-reader-%d%d" % (wk + rk), exp, got,
                "writer %s reader %s bytes %s" % (layout.type_string(specs[wk])[:250], layout.type_string(specs[rk])[:250], data.hex()))
        # and the model: what both revisions know keeps its value
        if got[0] == "ok" and case["top"] == 0:
            for n, _t in case["pre"]:
                if n:
                    require(codec.same(dict((a, b) for a, b in _t_pairs(specs[rk]))[n], got[1].get(n), codec.normalise(specs[wk], vw).get(n)), "two-level:common-leading-field", vw.get(n), got[1].get(n), "field %s" % n)
        checked += 1
    return Info(True, ["two-level", "top:%d" % case["top"], "extra:%d" % len(e_names), "outer-extra:%d" % len(g_names)], sample={"newest": layout.type_string(specs[(1, 1)])[:300], "value": case["value"]})


def _t_pairs(spec: typing.Any) -> typing.List[typing.Tuple[str, typing.Any]]:
    body = spec[1] if spec[0] == "delim" else spec
    return [(n, t) for n, t in body[1] if n]


def _two_level_cases() -> st.SearchStrategy:
    def with_value(args: typing.Any) -> st.SearchStrategy:
        F, E, pre, G, slack, oslack, top, pair = args
        case = {"fields": F, "extra": E, "pre": pre, "outer_extra": G, "slack": slack, "outer_slack": oslack, "top": top, "pair": pair}
        newest = _two_level_specs(case)[(1, 1)]
        return gt.values(newest).map(lambda v: dict(case, value=v))

    return st.tuples(_prim_fields(0, 3, "f"), _prim_fields(1, 3, "e"), _prim_fields(0, 2, "p"), _prim_fields(1, 3, "g"),
                     st.integers(0, 2), st.integers(0, 2), st.integers(0, 2), st.integers(0, 15)).flatmap(with_value)


def parts(ctx: Ctx) -> typing.List[Part]:
    return [Part("evolution", _cases(), check_evolution, weight=3), Part("two-level", _two_level_cases(), check_two_level, weight=1, cost=2.0)]
