"""C09 - versioned references resolve to exactly the named definition or fail cleanly."""
from __future__ import annotations

import copy
import os
import typing

from hypothesis import strategies as st
from hypothesis.stateful import rule, precondition

from ..core import Info, Part, Ctx, Violation, HarnessError, require, guarded
from ..gen import workspace as wsp
from ..stateful import HistoryMachine
from . import _nsutil as nu

ID = "C09"
TITLE = "Versioned references resolve to exactly the named definition or fail cleanly"
RULE = (
    "(Workspaces also hold versions whose digits read alike when run together - 1.10 / 11.0 - and names that differ by letter case only, with different versions; fault missing-qualified-namesake: a dotted name that exists only relative to the referrer's namespace.)  "
    "Cases are dependency graphs on disk (<= 8 definitions in 1..3 root namespaces, several versions of one name, nested namespaces, "
    "relative and absolute spellings, references through arrays, cross-root edges, diamonds and chains; acyclic by construction) read with "
    "read_namespace per root and read_files over drawn target subsets and orders, twice in one process; plus injected faults (reference to "
    "a missing name or version, self reference, cycles of length 2..3, a reference differing from an existing name only by letter case, a "
    "second lookup root holding another definition with the same name and version) and rule-based histories over one workspace (add a "
    "definition, delete one, read).  Oracles: every composite-typed field (also inside arrays, at any depth) is the definition the model "
    "resolves the reference to - same name, exactly that version, its own source_file_path - and its deep fingerprint equals that of "
    "the same definition read alone; faults raise InvalidDefinitionError exactly when the faulty definition is in the closure of what is "
    "read, and the read terminates.  Non-trivial = a diamond, or >= 2 versions of a referenced name, or a cross-root edge, or an expected "
    "failure."
)
ASSUMPTIONS = ["a per-case watchdog bounds every read; graphs are small so legitimate reads take milliseconds"]
BUDGET = {"quick": 260, "thorough": 5200}


def _roots(ws: typing.Any, d: str) -> typing.List[str]:
    return [os.path.join(d, wsp.root_dir(ws, i)) for i in range(len(ws["roots"]))]


def _alone_fingerprints(ws: typing.Any, d: str, indices: typing.Iterable[int]) -> typing.Dict[int, typing.Any]:
    import pydsdl

    out = {}
    roots = _roots(ws, d)
    for i in indices:
        (direct, _), _ = guarded(pydsdl.read_files, [os.path.join(d, wsp.rel_path(ws, ws["defs"][i]))], roots, what="read_files:alone")
        require(len(direct) == 1, "alone-read-size", 1, len(direct))
        out[i] = wsp.fingerprint(direct[0])
    return out


def _unwrap(t: typing.Any) -> typing.Any:
    import pydsdl

    while isinstance(t, pydsdl.ArrayType):
        t = t.element_type
    return t


def verify_resolution(ws: typing.Any, d: str, idx: int, comp: typing.Any, alone: typing.Dict[int, typing.Any], where: str, seen: typing.Set[typing.Tuple[int, int]]) -> None:
    """comp is the composite obtained for definition idx (as a result or as a nested field type)."""
    import pydsdl

    df = ws["defs"][idx]
    want_ident = (wsp.full_name(ws, df), df["version"][0], df["version"][1])
    require(wsp.ident(comp) == want_ident, "resolved-to-wrong-definition", want_ident, wsp.ident(comp), where)
    got_path = os.path.realpath(str(comp.source_file_path))
    want_path = os.path.realpath(os.path.join(d, wsp.rel_path(ws, df)))
    require(got_path == want_path, "resolved-to-wrong-file", want_path, got_path, where)
    body = comp.request_type if isinstance(comp, pydsdl.ServiceType) else comp
    consts = {c.name: c.value.native_value for c in body.constants}
    require(consts.get("ID") == idx, "resolved-to-wrong-body", idx, str(consts.get("ID")), where + " (%s)" % (want_ident,))
    require(consts.get("REV") == df.get("rev", 0), "stale-definition-text", df.get("rev", 0), str(consts.get("REV")), where + " (%s)" % (want_ident,))
    for k, ref in enumerate(df["refs"]):
        want_rev = ws["defs"][ref["to"]].get("rev", 0)
        require(consts.get("COPY%d" % k) == want_rev, "constant-read-from-wrong-definition", want_rev, str(consts.get("COPY%d" % k)),
                where + " (%s COPY%d)" % (want_ident, k))
    if idx in alone:
        fp = wsp.fingerprint(comp)
        require(fp == alone[idx], "nested-type-differs-from-standalone-read", alone[idx], fp, where + " definition %s" % (want_ident,))
    key = (idx, id(comp))
    if key in seen:
        return
    seen.add(key)
    by_name = {f.name: f for f in body.fields}
    for k, ref in enumerate(df["refs"]):
        f = by_name.get("ref%d" % k)
        require(f is not None, "reference-field-missing", "ref%d" % k, sorted(by_name), where)
        inner = _unwrap(f.data_type)
        require(isinstance(inner, pydsdl.CompositeType), "reference-not-composite", "composite", str(inner), where)
        verify_resolution(ws, d, ref["to"], inner, alone, where + " -> ref%d" % k, seen)


def _index_of(ws: typing.Any, t: typing.Any) -> int:
    for i, df in enumerate(ws["defs"]):
        if wsp.ident(t) == (wsp.full_name(ws, df), df["version"][0], df["version"][1]):
            return i
    raise Violation("unknown-definition-in-result", "a definition of the workspace", str(t))


def _features(ws: typing.Any) -> typing.Tuple[bool, typing.List[str]]:
    defs = ws["defs"]
    referenced = [r["to"] for d_ in defs for r in d_["refs"]]
    diamond = len(referenced) != len(set(referenced))
    names_ref = [wsp.full_name(ws, defs[j]) for j in set(referenced)]
    multi_version = len(set(names_ref)) < len(names_ref) or any(
        sum(1 for x in defs if wsp.full_name(ws, x) == wsp.full_name(ws, defs[j])) > 1 for j in set(referenced)
    )
    cross = any(defs[r["to"]]["root"] != d_["root"] for d_ in defs for r in d_["refs"])
    classes = ["refs:%s" % ("0" if not referenced else "1-3" if len(referenced) <= 3 else ">3")]
    for flag, name in ((diamond, "diamond"), (multi_version, "multi-version-target"), (cross, "cross-root")):
        if flag:
            classes.append(name)
    return bool(diamond or multi_version or cross), classes


def check_resolve(case: typing.Any, ctx: Ctx) -> Info:
    import pydsdl

    ws = case["ws"]
    d = ctx.scratch()
    try:
        wsp.write(ws, d)
        roots = _roots(ws, d)
        n = len(ws["defs"])
        where = "workspace %s" % sorted(wsp.rel_path(ws, x) for x in ws["defs"])
        alone = _alone_fingerprints(ws, d, range(n))
        for ri in range(len(roots)):
            for _round in range(2):  # reading twice in one process must not change anything
                res, _ = guarded(pydsdl.read_namespace, roots[ri], roots, what="read_namespace")
                for t in res:
                    verify_resolution(ws, d, _index_of(ws, t), t, alone, where + " read_namespace(%s)" % wsp.root_dir(ws, ri), set())
            # a directory named several times under different spellings (relative, with .., through links, as the root *and* as a
            # lookup) is still one directory: every reference into it has exactly one candidate
            os.makedirs(os.path.join(d, "links"), exist_ok=True)
            sp = case.get("spell", 0)
            lookups = [nu.spell_directory(d, wsp.root_dir(ws, i), sp + i + k * 3, os.path.join(d, "links")) for k in range(2) for i in range(len(roots))]
            with nu.cwd(d):
                res, _ = guarded(pydsdl.read_namespace, roots[ri], lookups, what="read_namespace:respelled-lookups")
            for t in res:
                verify_resolution(ws, d, _index_of(ws, t), t, alone, where + " read_namespace(%s, lookups %r)" % (wsp.root_dir(ws, ri), lookups), set())
        targets = []
        for t_ in case["targets"]:
            if t_ % n not in targets:
                targets.append(t_ % n)
        paths = [os.path.join(d, wsp.rel_path(ws, ws["defs"][i])) for i in targets]
        for order in (paths, list(reversed(paths))):
            (direct, trans), _ = guarded(pydsdl.read_files, order, roots, what="read_files")
            for t in list(direct) + list(trans):
                verify_resolution(ws, d, _index_of(ws, t), t, alone, where + " read_files(%s)" % [os.path.basename(p) for p in order], set())
    finally:
        ctx.cleanup(d)
    nontrivial, classes = _features(ws)
    return Info(nontrivial, ["resolve"] + classes, sample={"files": {wsp.rel_path(ws, x): wsp.text_of(ws, i) for i, x in enumerate(ws["defs"])}})


def inject_fault(ws: typing.Any, fault: typing.Any) -> typing.Tuple[typing.Any, typing.Optional[typing.Dict[str, typing.Any]]]:
    """Returns (workspace with the fault, description {carriers: set of definition indices whose reading must fail, ...})."""
    case_ws_copy = copy.deepcopy(ws)
    ws = copy.deepcopy(ws)
    defs = ws["defs"]
    n = len(defs)
    kind = fault["kind"]
    c = fault["carrier"] % n
    carrier = defs[c]

    def add_line(i: int, line: str) -> None:
        lines = wsp.text_of(ws, i).split("\n")
        # before the mode directive of the first section (an @assert does not change the layout)
        pos = next(k for k, l in enumerate(lines) if l.startswith("@sealed") or l.startswith("@extent"))
        lines.insert(pos, line)
        defs[i]["text"] = "\n".join(lines)

    def ref_name(j: int, from_i: int) -> str:
        t = defs[j]
        return "%s.%d.%d" % (wsp.full_name(ws, t), t["version"][0], t["version"][1])

    if kind == "missing-name":
        add_line(c, "@assert %s.Nope.1.0.ID == 0" % ws["roots"][carrier["root"]]["name"])
        return ws, {"carriers": {c}, "kind": kind}
    if kind == "missing-relative-namesake":
        # a reference without namespace to a short name that exists only in *other* namespaces: unresolvable
        rn = lambda x: ws["roots"][x["root"]]["name"]  # several directories of one name are one namespace
        here = (rn(carrier), tuple(carrier["ns"]))
        cands = [j for j, x in enumerate(defs) if (rn(x), tuple(x["ns"])) != here
                 and not any((rn(y), tuple(y["ns"])) == here and y["short"] == x["short"] and y["version"] == x["version"] for y in defs)]
        if not cands:
            return ws, None
        j = cands[fault["other"] % len(cands)]
        add_line(c, "@assert %s.%d.%d.ID == %d" % (defs[j]["short"], defs[j]["version"][0], defs[j]["version"][1], j))
        return ws, {"carriers": {c}, "kind": kind, "namesake": j}
    if kind == "missing-qualified-namesake":
        # a dotted name is a full name: `inner.Q.1.0` written inside <root>.<ns> does not mean <root>.<ns>.inner.Q.1.0, even though
        # that definition exists (and `inner` is not the name of any root namespace)
        if carrier["service"]:
            return ws, None
        here = (ws["roots"][carrier["root"]]["name"], tuple(carrier["ns"]) + ("inner",))
        if any((ws["roots"][x["root"]]["name"], tuple(x["ns"])) == here for x in defs):
            return ws, None
        defs.append({"root": carrier["root"], "ns": list(carrier["ns"]) + ["inner"], "short": "Q", "version": [1, 0], "port": None, "service": False, "sealed": True,
                     "size": 1, "deprecated": False, "legacy": False, "refs": []})
        add_line(c, "@assert inner.Q.1.0.ID == %d" % (len(defs) - 1))
        return ws, {"carriers": {c}, "kind": kind, "namesake": len(defs) - 1}
    if kind == "missing-version":
        j = fault["other"] % n
        t = defs[j]
        taken = {tuple(x["version"]) for x in defs if wsp.full_name(ws, x) == wsp.full_name(ws, t)}
        v = next(v for v in ((t["version"][0], t["version"][1] + 1), (t["version"][0] + 1, 0), (3, 3), (4, 4), (5, 5), (6, 6), (7, 7), (8, 8), (9, 9)) if v not in taken and v[0] <= 255 and v[1] <= 255)
        add_line(c, "@assert %s.%d.%d.ID == 0" % (wsp.full_name(ws, t), v[0], v[1]))
        return ws, {"carriers": {c}, "kind": kind}
    if kind == "missing-version-beyond-255":
        # version numbers in a reference are plain numbers: one beyond 255 names nothing - in particular not the version it would
        # alias if major and minor were packed into bytes (1.256 is not 2.0), however it is spelled
        j = fault["other"] % n
        t = defs[j]
        M, m = t["version"]
        spelled = ["%d.%d" % (M - 1, m + 256) if M >= 1 else "%d.%d" % (M, m + 256), "%d.%d" % (M + 256, m), "%d.%d" % (M, m + 65536), "%d.%s" % (M, "2_5_6" if m == 0 else str(m + 256)),
                   "%d.%d" % (M, 10**20 + m)][fault["carrier"] % 5]
        add_line(c, "@assert %s.%s.ID == 0" % (wsp.full_name(ws, t), spelled))
        return ws, {"carriers": {c}, "kind": kind}
    if kind == "self":
        add_line(c, "@assert %s.ID >= 0" % ref_name(c, c))
        return ws, {"carriers": {c}, "kind": kind, "edges": [(c, c)]}
    if kind in ("self-with-twin", "cycle-with-twin"):
        # a self / cyclic reference while ANOTHER file defines the same name and version (second root of the same name, same
        # layout, other body): the reference must still fail - it must not be closed silently through the namesake
        if kind == "self-with-twin":
            back = c
        else:
            reach = sorted(wsp.closure(ws, [c]) - {c})
            if not reach:
                return ws, None
            back = reach[fault["other"] % len(reach)]
        add_line(back, "@assert %s.ID >= 0" % ref_name(c, back))
        ws["roots"].append({"parent": "dup", "name": ws["roots"][carrier["root"]]["name"]})
        twin_text = "\n".join(l for l in wsp.text_of(case_ws_copy, c).split("\n") if not l.startswith("@assert")).replace("uint32 ID = %d" % c, "uint32 ID = 777")
        ws["twins"] = [dict(carrier, root=len(ws["roots"]) - 1, text=twin_text, twin_of=c)]
        return ws, {"carriers": {c, back}, "kind": kind, "edges": [(back, c)]}
    if kind == "wrong-case":
        j = fault["other"] % n
        name = wsp.full_name(ws, defs[j])
        swapped = name[:-1] + name[-1].swapcase() if name[-1].isalpha() else name.swapcase()
        if swapped == name or any(wsp.full_name(ws, x) == swapped for x in defs):
            return ws, None
        add_line(c, "@assert %s.%d.%d.ID >= 0" % (swapped, defs[j]["version"][0], defs[j]["version"][1]))
        return ws, {"carriers": {c}, "kind": kind}
    if kind == "cycle":
        # close a cycle: some definition reachable from the carrier refers back to the carrier (length 2..3)
        reach = sorted(wsp.closure(ws, [c]) - {c})
        if not reach:
            return ws, None
        back = reach[fault["other"] % len(reach)]
        add_line(back, "@assert %s.ID >= 0" % ref_name(c, back))
        on_cycle = {i for i in range(n) if c in wsp.closure(ws, [i]) and back in wsp.closure(ws, [i])} | {c, back}
        return ws, {"carriers": {c, back}, "kind": kind, "edges": [(back, c)]}
    if kind == "duplicate-in-second-root":
        j = fault["other"] % n
        if j == c:
            return ws, None
        t = defs[j]
        ws["roots"].append({"parent": "dup", "name": ws["roots"][t["root"]]["name"]})
        twin = dict(t, root=len(ws["roots"]) - 1, refs=[], text="uint32 ID = 777\n@sealed\n", twin_of=j)
        ws["twins"] = [twin]
        add_line(c, "@assert %s.ID >= 0" % ref_name(j, c))
        referrers = {i for i, x in enumerate(defs) if any(r["to"] == j for r in x["refs"])}
        return ws, {"carriers": {c} | referrers, "kind": kind, "edges": [(c, j)]}
    raise HarnessError(kind)


def check_fault(case: typing.Any, ctx: Ctx) -> Info:
    import pydsdl

    ws, desc = inject_fault(case["ws"], case["fault"])
    if desc is None:
        return Info(False, ["fault:not-applicable"])
    d = ctx.scratch()
    try:
        wsp.write(ws, d)
        for tw in ws.get("twins", []):
            p = os.path.join(d, wsp.rel_path(ws, tw))
            os.makedirs(os.path.dirname(p), exist_ok=True)
            with open(p, "w") as f:
                f.write(tw["text"])
        roots = _roots(ws, d)
        n = len(ws["defs"])
        carriers = desc["carriers"]
        files = {wsp.rel_path(ws, x): wsp.text_of(ws, i) for i, x in enumerate(ws["defs"])}
        where = "fault %s in %s; files %r" % (desc["kind"], sorted(wsp.rel_path(ws, ws["defs"][i]) for i in carriers), files)
        # read_files over a drawn target list: fails iff a carrier is in the closure
        targets = []
        for t_ in case["targets"]:
            if t_ % n not in targets:
                targets.append(t_ % n)
        paths = [os.path.join(d, wsp.rel_path(ws, ws["defs"][i])) for i in targets]
        hit = bool(wsp.closure(ws, targets) & carriers)
        res, ex = guarded(pydsdl.read_files, paths, roots[: len(case["ws"]["roots"])], roots, allowed=(pydsdl.InvalidDefinitionError,), what="read_files:fault")
        if hit:
            require(ex is not None, "bad-reference-resolved:" + desc["kind"], "InvalidDefinitionError", "accepted", where + " targets %s" % [os.path.basename(p) for p in paths])
        else:
            require(ex is None, "unrelated-read-failed:" + desc["kind"], "accepted", "%s: %s" % (type(ex).__name__, ex), where + " targets %s" % [os.path.basename(p) for p in paths])
        # read_namespace of the carrier's root always fails
        cr = ws["defs"][sorted(carriers)[0]]["root"]
        res, ex = guarded(pydsdl.read_namespace, roots[cr], roots, allowed=(pydsdl.InvalidDefinitionError,), what="read_namespace:fault")
        require(ex is not None, "bad-reference-resolved:namespace:" + desc["kind"], "InvalidDefinitionError", "accepted", where)
        # a failed call must leave nothing behind: the definitions that do not reach the fault read fine right afterwards, and the
        # result holds exactly them and their closure
        edges = desc.get("edges", [])

        def reach(i: int) -> typing.Set[int]:
            out = wsp.closure(ws, [i])
            changed = True
            while changed:
                changed = False
                for a, b in edges:
                    if a in out and b not in out:
                        out |= wsp.closure(ws, [b])
                        changed = True
            return out

        healthy = [i for i in range(n) if not (reach(i) & carriers)]
        if desc["kind"] == "duplicate-in-second-root":
            healthy = []  # the twin makes every reference to that name ambiguous; nothing to assert here
        if healthy:
            hp = [os.path.join(d, wsp.rel_path(ws, ws["defs"][i])) for i in healthy]
            (direct, trans), ex = guarded(pydsdl.read_files, hp, roots[: len(case["ws"]["roots"])], roots, what="read_files:after-failure")
            want_direct = sorted(healthy)
            want_trans = sorted(wsp.closure(ws, healthy) - set(healthy))
            got_direct = sorted(_index_of(ws, t) for t in direct)
            got_trans = sorted(_index_of(ws, t) for t in trans)
            require(got_direct == want_direct and got_trans == want_trans, "read-after-failed-read-differs", (want_direct, want_trans), (got_direct, got_trans), where)
            for t in list(direct) + list(trans):
                verify_resolution(ws, d, _index_of(ws, t), t, {}, where + " (after a failed read)", set())
    finally:
        ctx.cleanup(d)
    return Info(True, ["fault:" + desc["kind"], "closure-hit" if hit else "closure-miss"] + (["healthy-read-after-failure"] if healthy else []), sample=where[:1500])


# ------------------------------------------------------------------------------------------------------------ histories


def _new_def() -> st.SearchStrategy:
    return st.fixed_dictionaries(
        {
            "ns": st.lists(st.sampled_from(wsp.SUBS[:2]), max_size=1),
            "short": st.sampled_from(wsp.SHORTS[:4]),
            "version": st.sampled_from([[1, 0], [1, 1], [2, 0], [0, 1]]),
            "sealed": st.booleans(),
            "size": st.integers(1, 3),
            "refs": st.lists(st.fixed_dictionaries({"to": st.integers(0, 30), "absolute": st.booleans(), "array": st.sampled_from([None, ["le", 2]])}), max_size=2),
        }
    )


def apply_history_step(state: typing.Dict[str, typing.Any], step: typing.Any, ctx: Ctx) -> None:
    import pydsdl

    ws = state["ws"]
    d = state["dir"]
    op = step[0]
    live = [i for i, x in enumerate(ws["defs"]) if not x.get("deleted")]
    if op == "add":
        nd = dict(step[1], root=0, port=None, service=False, deprecated=False, legacy=False)
        key = (tuple(nd["ns"]), nd["short"].lower(), tuple(nd["version"]))
        if any((tuple(x["ns"]), x["short"].lower(), tuple(x["version"])) == key for x in ws["defs"]):
            return
        # siblings under one major must keep layout: skip candidates that would clash with an existing sibling
        if any((x["ns"], x["short"], x["version"][0]) == (nd["ns"], nd["short"], nd["version"][0]) for x in ws["defs"]):
            return
        refs = []
        for r in nd["refs"]:
            if not live:
                break
            j = live[r["to"] % len(live)]
            same_ns = ws["defs"][j]["ns"] == nd["ns"]
            refs.append({"to": j, "absolute": (not same_ns) or r["absolute"], "array": r["array"]})
        nd["refs"] = refs
        ws["defs"].append(nd)
        p = os.path.join(d, wsp.rel_path(ws, nd))
        os.makedirs(os.path.dirname(p), exist_ok=True)
        with open(p, "w") as f:
            f.write(wsp.text_of(ws, len(ws["defs"]) - 1))
        state["adds"] += 1
    elif op == "edit":
        if not live:
            return
        i = live[step[1] % len(live)]
        ws["defs"][i]["rev"] = ws["defs"][i].get("rev", 0) + 1 + step[2] % 3
        with open(os.path.join(d, wsp.rel_path(ws, ws["defs"][i])), "w") as f:
            f.write(wsp.text_of(ws, i))
        state["edits"] = state.get("edits", 0) + 1
    elif op == "delete":
        if not live:
            return
        i = live[step[1] % len(live)]
        ws["defs"][i]["deleted"] = True
        os.remove(os.path.join(d, wsp.rel_path(ws, ws["defs"][i])))
        state["deletes"] += 1
    elif op == "read":
        if not live:
            return
        roots = _roots(ws, d)

        def broken(i: int, seen: typing.Optional[typing.Set[int]] = None) -> bool:
            seen = seen or set()
            if i in seen:
                return False
            seen.add(i)
            return bool(ws["defs"][i].get("deleted")) or any(broken(r["to"], seen) for r in ws["defs"][i]["refs"])

        where = "history files %s" % sorted(wsp.rel_path(ws, ws["defs"][i]) for i in live)
        if step[1] == "namespace":
            expect_fail = any(broken(i) for i in live)
            res, ex = guarded(pydsdl.read_namespace, roots[0], roots, allowed=(pydsdl.InvalidDefinitionError,), what="read_namespace:history")
            targets = live
        else:
            targets = sorted({live[k % len(live)] for k in step[2]})
            expect_fail = any(broken(i) for i in targets)
            paths = [os.path.join(d, wsp.rel_path(ws, ws["defs"][i])) for i in targets]
            res, ex = guarded(pydsdl.read_files, paths, roots, allowed=(pydsdl.InvalidDefinitionError,), what="read_files:history")
            if ex is None:
                res = list(res[0]) + list(res[1])
        state["reads"] += 1
        if expect_fail:
            require(ex is not None, "reference-to-deleted-definition-resolved", "InvalidDefinitionError", "accepted", where)
            state["failed_reads"] += 1
        else:
            require(ex is None, "valid-history-read-failed", "accepted", "%s: %s" % (type(ex).__name__, ex), where)
            for t in res:
                verify_resolution(ws, d, _index_of(ws, t), t, {}, where, set())
            # exactly the expected definitions, whatever earlier calls in this process did (failed ones included)
            want = set(live) if step[1] == "namespace" else wsp.closure(ws, targets)
            got_idx = sorted(_index_of(ws, t) for t in res)
            require(got_idx == sorted(want), "history-read-returned-other-definitions", sorted(wsp.rel_path(ws, ws["defs"][i]) for i in want),
                    sorted(wsp.rel_path(ws, ws["defs"][i]) for i in got_idx), where)
    else:
        raise HarnessError(op)


def check_history(case: typing.Any, ctx: Ctx) -> Info:
    d = ctx.scratch()
    state = {"ws": {"roots": [{"parent": "p0", "name": "ns"}], "defs": []}, "dir": d, "adds": 0, "deletes": 0, "reads": 0, "failed_reads": 0}
    os.makedirs(os.path.join(d, "p0", "ns"))
    try:
        for step in case:
            apply_history_step(state, step, ctx)
    finally:
        ctx.cleanup(d)
    return _history_info(state, case)


def _history_info(state: typing.Any, history: typing.Any) -> Info:
    nt = state["reads"] >= 2 and state["adds"] >= 2
    return Info(nt, ["history", "reads:%d" % min(state["reads"], 5), "deletes:%d" % min(state["deletes"], 3)] + (["read-after-delete-fails"] if state["failed_reads"] else []), sample=history[:12])


def machine_factory(ctx: Ctx, hooks: typing.Any) -> typing.Any:
    class WorkspaceMachine(HistoryMachine):
        def initial_state(self) -> typing.Any:
            d = ctx.scratch()
            os.makedirs(os.path.join(d, "p0", "ns"))
            return {"ws": {"roots": [{"parent": "p0", "name": "ns"}], "defs": []}, "dir": d, "adds": 0, "deletes": 0, "reads": 0, "failed_reads": 0}

        def apply(self, state: typing.Any, step: typing.Any) -> None:
            apply_history_step(state, step, ctx)

        def info(self) -> Info:
            return _history_info(self.state, self.history)

        def cleanup(self) -> None:
            ctx.cleanup(self.state["dir"])

        @rule(nd=_new_def())
        def add(self, nd: typing.Any) -> None:
            self.step(["add", nd])

        @precondition(lambda self: self.state["adds"] > self.state["deletes"])
        @rule(i=st.integers(0, 30))
        def delete(self, i: int) -> None:
            self.step(["delete", i])

        @precondition(lambda self: self.state["adds"] > self.state["deletes"])
        @rule(i=st.integers(0, 30), by=st.integers(0, 2))
        def edit(self, i: int, by: int) -> None:
            self.step(["edit", i, by])

        @precondition(lambda self: self.state["adds"] > 0)
        @rule(mode=st.sampled_from(["namespace", "files"]), ts=st.lists(st.integers(0, 30), min_size=1, max_size=3))
        def read(self, mode: str, ts: typing.List[int]) -> None:
            self.step(["read", mode, ts])

    WorkspaceMachine.hooks = hooks
    WorkspaceMachine.ctx = ctx
    return WorkspaceMachine


def parts(ctx: Ctx) -> typing.List[Part]:
    ws = st.one_of(
        wsp.definitions(max_defs=8, roots=3),
        wsp.definitions(max_defs=8, roots=2, shorts=["A", "B"], subs=["sub", "A", "Ba"]),
        # namespaces whose components repeat (or extend) the short names: ns.A.A, ns.A.Ab, ns.Ab.A.A ...
        wsp.definitions(max_defs=7, roots=1, shorts=["A", "Ab"], subs=["A", "Ab"]),
    )
    resolve_cases = st.fixed_dictionaries({"ws": ws, "targets": st.lists(st.integers(0, 30), min_size=1, max_size=4), "spell": st.integers(0, 9)})
    fault = st.fixed_dictionaries(
        {
            "kind": st.sampled_from(["missing-name", "missing-version", "missing-relative-namesake", "missing-qualified-namesake", "missing-version-beyond-255", "self", "wrong-case", "cycle", "cycle", "duplicate-in-second-root", "self-with-twin", "cycle-with-twin"]),
            "carrier": st.integers(0, 30),
            "other": st.integers(0, 30),
        }
    )
    fault_cases = st.fixed_dictionaries({"ws": ws, "fault": fault, "targets": st.lists(st.integers(0, 30), min_size=1, max_size=3)})
    return [
        Part("resolve", resolve_cases, check_resolve, weight=3, cost=2.5),
        Part("fault", fault_cases, check_fault, weight=3, cost=1.0),
        Part("history", None, check_history, weight=1, cost=4.0, machine=machine_factory, steps=24),
    ]
