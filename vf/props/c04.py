"""C04 - constant expressions evaluate exactly, with the Specification's precedence."""
from __future__ import annotations

import os
import typing
from fractions import Fraction

from hypothesis import strategies as st

from ..core import Info, Part, Ctx, Violation, HarnessError, require, guarded
from ..gen import expr as ge
from ..ref import expr as re_

ID = "C04"
TITLE = "Constant expressions evaluate exactly, with the Specification's precedence"
RULE = (
    "(NFC comparisons also with operands assembled by + from pieces cut inside combining sequences.)  "
    "Cases are expression trees (typed recursive strategy over integer literals in every base with separators, real literals in point / "
    "exponent notation, strings in both quote styles with escapes, booleans, set literals, unary + - !, all binary operators, "
    ".min/.max/.count; depth <= 4; integer exponents |e| <= 16; an ill-typed variant splices one wrong-kind subtree, zero divisor, empty / "
    "mixed set or unknown attribute into a well-typed tree) rendered with minimal parentheses from an independent precedence table (or "
    "with redundant ones) and drawn inter-token blanks, observed through @print, a constant initializer, an array capacity, @extent and "
    "@assert.  Oracle: independent evaluator over the tree (Fractions, NFC strings, frozensets) with the Specification's definedness "
    "rules: defined => exactly that value at every observation point; undefined => InvalidDefinitionError.  Non-trivial = >= 3 "
    "operators from >= 2 precedence levels outside redundant parentheses, or a set-vs-scalar operator with the set on the right, or an "
    "expected-undefined case."
)
ASSUMPTIONS = [
    "modulo is floored (result takes the sign of the divisor), the convention of the reference implementation",
    "non-integer exponents, exponent magnitudes > 16 and results beyond 4000 bits are outside the quantifier (cases are discarded and counted)",
    ".min/.max over one-element non-rational sets and over sets of sets are not asserted either way",
]
BUDGET = {"quick": 900, "thorough": 18000}
# coverage-guided twins (thorough tier): part name -> executions per shard; see core.cover
COVER = {"minimal-parens": 4000, "ill-typed": 4000}

ROOT = "ns"
INT64 = (-(2**63), 2**63 - 1)
F64_MAX = Fraction((2 - Fraction(1, 2**52)) * 2**1023)


def _same_value(a: re_.Value, b: re_.Value) -> bool:
    return a == b


def check_expression(case: typing.Any, ctx: Ctx) -> Info:
    import pydsdl

    tree = case["tree"]
    try:
        expected: typing.Optional[re_.Value] = re_.evaluate(tree)
        defined = True
    except re_.Undefined:
        expected = None
        defined = False
    except re_.OutOfScope:
        ctx.extra["out_of_scope"] = ctx.extra.get("out_of_scope", 0) + 1
        return Info(False, ["out-of-scope"])
    text = re_.render(tree, re_.Spacer(case["spacing"]))
    lines = ["@print " + text]
    sinks = ["print"]
    if defined:
        assert expected is not None
        kind, val = expected
        pick = case["sink"] % 4
        if kind == "rat":
            if val.denominator == 1 and INT64[0] <= val <= INT64[1] and pick in (0, 1):
                lines.append("int64 X = " + text)
                sinks.append("const")
            elif abs(val) <= F64_MAX and pick in (0, 1):
                lines.append("float64 X = " + text)
                sinks.append("const")
            elif val.denominator == 1 and 1 <= val <= 2**64 and pick == 2:
                lines.append("uint8[" + text + "] x")
                sinks.append("capacity")
            elif val.denominator == 1 and 0 <= val <= 2**60 and pick == 3:
                lines.append("@extent (" + text + ") * 8")
                sinks.append("extent")
        elif kind == "bool":
            if pick in (0, 1):
                lines.append("bool X = " + text)
                sinks.append("const")
            else:
                lines.append("@assert " + ("" if val else "!(") + text + ("" if val else ")"))
                sinks.append("assert")
        else:
            lines.append("@assert (" + text + ") == (" + text + ")")
            sinks.append("assert-self")
    if "extent" not in sinks:
        lines.append("@sealed")
    source = "\n".join(lines) + "\n"
    d = ctx.scratch()
    try:
        os.makedirs(os.path.join(d, ROOT))
        with open(os.path.join(d, ROOT, "E.1.0.dsdl"), "w", newline="") as f:
            f.write(source)
        prints: typing.List[str] = []
        res, ex = guarded(
            pydsdl.read_namespace, os.path.join(d, ROOT), [], print_output_handler=lambda p, l, t: prints.append(t),
            allowed=(pydsdl.InvalidDefinitionError,), what="read",
        )
    finally:
        ctx.cleanup(d)
    n_ops, levels = re_.count_nodes(tree)
    classes = ["defined" if defined else "undefined", "ops:%s" % ("0" if n_ops == 0 else "1-2" if n_ops <= 2 else "3-6" if n_ops <= 6 else ">6")]
    classes += ["sink:" + s for s in sinks[1:]]
    if defined:
        assert expected is not None
        classes.append("kind:" + expected[0])
        require(ex is None, "defined-expression-rejected", re_.describe(expected), "%s: %s" % (type(ex).__name__, ex), source)
        require(len(prints) == 1, "print-count", 1, prints, source)
        try:
            got = re_.parse_printed(prints[0])
        except re_.PrintParseError as pe:
            raise Violation("print-format", re_.describe(expected), prints[0], "%s; %s" % (pe, source))
        if not _same_value(got, expected):
            raise Violation("value:" + expected[0], re_.describe(expected), prints[0], source)
        (t,) = res
        if "const" in sinks:
            c = t.constants[0].value
            native = c.native_value
            want = expected[1]
            require(native == want and type(native) is type(want), "constant-value", str(want), repr(native), source)
        if "capacity" in sinks:
            require(t.fields[0].data_type.capacity == expected[1], "array-capacity", str(expected[1]), t.fields[0].data_type.capacity, source)
        if "extent" in sinks:
            require(t.extent == expected[1] * 8, "extent-value", str(expected[1] * 8), t.extent, source)
    else:
        require(ex is not None, "undefined-expression-accepted", "InvalidDefinitionError", "accepted; printed %r" % prints, source)
    nontrivial = (n_ops >= 3 and len(levels) >= 2 and not re_.has_paren(tree)) or re_.set_on_right(tree) or not defined
    if n_ops >= 3 and len(levels) >= 2 and not re_.has_paren(tree):
        classes.append("minimal-parens-multi-level")
    if re_.set_on_right(tree):
        classes.append("set-on-right")
    return Info(bool(nontrivial), classes, sample={"source": source, "expected": re_.describe(expected) if expected else "undefined"})


def _strip_parens(t: typing.Any) -> typing.Any:
    k = t[0]
    if k == "paren":
        return _strip_parens(t[1])
    if k == "set":
        return ["set", [_strip_parens(x) for x in t[1]]]
    if k == "un":
        return ["un", t[1], _strip_parens(t[2])]
    if k == "bin":
        return ["bin", t[1], _strip_parens(t[2]), _strip_parens(t[3])]
    if k == "attr":
        return ["attr", _strip_parens(t[1]), t[2]]
    return t


def _cases(trees: st.SearchStrategy, strip: bool) -> st.SearchStrategy:
    tr = trees.map(_strip_parens) if strip else trees
    return st.fixed_dictionaries({"tree": tr, "spacing": st.integers(0, 2**32 - 1), "sink": st.integers(0, 3)})


# ----------------------------------------------------------------------------------------------------------------------
# Identifiers.  A name in an expression stands for the constant of that name declared *earlier in the same section*; after `---` the
# request's names are unknown again (unknown identifiers are among the operand combinations the statement lists as rejected), and a
# response may declare the same names anew with other values.

NAMES = ["A", "LIMIT", "k2"]


def check_identifiers(case: typing.Any, ctx: Ctx) -> Info:
    import pydsdl

    lines: typing.List[str] = []
    env: typing.Dict[str, int] = {}
    expect_reject = None
    for si, section in enumerate(case["sections"]):
        if si == 1:
            lines += ["@sealed", "---"]
            env = {}
        for st_ in section:
            name = NAMES[st_["name"] % len(NAMES)]
            if st_["op"] == "declare":
                if name in env:
                    continue  # (a second declaration of a name within a section is C05's business)
                env[name] = st_["value"]
                lines.append("uint16 %s = %d" % (name, st_["value"]))
            else:
                form = st_["op"]
                if name in env:
                    v = env[name]
                    text = {"assert": "@assert %s == %d" % (name, v), "print": "@print %s + 1/2" % name, "capacity": "uint8[<=%s + 1] arr%d" % (name, len(lines)),
                            "const": "uint32 C%d = %s * 2" % (len(lines), name), "assert-expr": "@assert (%s + 1) * 2 - %s == %d" % (name, name, v + 2)}[form]
                else:
                    text = {"assert": "@assert %s >= 0" % name, "print": "@print %s" % name, "capacity": "uint8[<=%s + 1] arr%d" % (name, len(lines)), "const": "uint32 C%d = %s" % (len(lines), name),
                            "assert-expr": "@assert %s == %s" % (name, name)}[form]
                    if expect_reject is None:
                        expect_reject = "%s is not declared in this section (line %d)" % (name, len(lines) + 1)
                lines.append(text)
    lines.append("@sealed")
    if len(case["sections"]) == 1 or not any(l == "---" for l in lines):
        pass
    text = "\n".join(lines) + "\n"
    d = ctx.scratch()
    try:
        os.makedirs(os.path.join(d, "ns"))
        with open(os.path.join(d, "ns", "Ident.1.0.dsdl"), "w") as f:
            f.write(text)
        got_prints: typing.List[str] = []
        res, ex = guarded(pydsdl.read_namespace, os.path.join(d, "ns"), [], lambda p_, l_, t_: got_prints.append(t_), allowed=(pydsdl.InvalidDefinitionError,), what="read:identifiers")
    finally:
        ctx.cleanup(d)
    if expect_reject is not None:
        require(ex is not None, "undefined-identifier-accepted", "InvalidDefinitionError: " + expect_reject, "accepted", text)
    else:
        require(ex is None, "defined-expression-rejected:identifier", "accepted", "%s: %s" % (type(ex).__name__, ex), text)
    service = "---" in lines
    return Info(True, ["identifiers", "service" if service else "message", "reject" if expect_reject else "accept"], sample=text)


def _identifier_cases() -> st.SearchStrategy:
    stmt = st.fixed_dictionaries({"op": st.sampled_from(["declare", "declare", "assert", "print", "capacity", "const", "assert-expr"]), "name": st.integers(0, 2), "value": st.integers(0, 200)})
    return st.fixed_dictionaries({"sections": st.lists(st.lists(stmt, min_size=1, max_size=5), min_size=1, max_size=2)})


def parts(ctx: Ctx) -> typing.List[Part]:
    well = st.one_of(ge.any_value(3), ge.any_value(4), ge.rat(4), ge.boolean(4), ge.sets("rat", 3), ge.sets("str", 2), ge.string(3))
    return [
        Part("minimal-parens", _cases(well, True), check_expression, weight=4),
        Part("redundant-parens", _cases(well, False), check_expression, weight=2),
        Part("ill-typed", _cases(ge.ill_typed(3), False), check_expression, weight=3),
        Part("identifiers", _identifier_cases(), check_identifiers, weight=1),
    ]
