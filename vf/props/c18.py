"""C18 - model objects are immutable values with a sound equality / hash / pickle contract."""
from __future__ import annotations

import copy
import pickle
import typing
from fractions import Fraction

from hypothesis import strategies as st

from ..core import Info, Part, Ctx, Violation, HarnessError, require, guarded
from ..gen import bls as gbls
from ..gen import types as gt
from ..gen.materialize import ApiBuilder
from ..ref import bls as rbls
from ..ref import layout
from . import c01

ID = "C18"
TITLE = "Model objects are immutable values with a sound equality/hash/pickle contract"
RULE = (
    "(After a container has been compared / hashed / pickled every nested type is compared, children first, with an untouched independently built twin.  Part travel: objects pickled here - after hashing them or not - are opened in a child process with another PYTHONHASHSEED and compared, hashed and used as dict keys against objects built there.)  "
    "Cases are pairs of objects of one class built independently from two descriptions that are equal or differ by one drawn edit: "
    "serializable types (primitives, void, arrays, structures, unions, delimited, services; nested), Field / PaddingField / Constant, "
    "expression values (Rational, Boolean, String, Set), BitLengthSet (operator trees rewritten by set-preserving algebraic identities, "
    "or different trees); plus every list-returning accessor of composites and a pickle round trip of every object.  Oracles: a == a; "
    "(a == b) == (b == a); a == b => hash(a) == hash(b); equal descriptions => equal; descriptions differing in kind, normalized string "
    "form or (min, max, residues mod 32 of the) bit length set => unequal; mutating a returned list changes nothing observable and the next "
    "call returns the original content; pickle.loads(pickle.dumps(x)) == x with equal hash, str, repr, attributes and layout; "
    "BitLengthSet: equal model sets => == and equal hashes.  Non-trivial = a pair built from distinct spec objects, an accessor mutation, "
    "or a pickle of a nested composite."
)
ASSUMPTIONS = ["BitLengthSet equality is documented as approximate: only false negatives are violations"]
BUDGET = {"quick": 900, "thorough": 18000}


def _summary(t: typing.Any, spec: typing.Any) -> typing.Any:
    """Layout observables of a type (cheap, symbolic)."""
    b = t.bit_length_set
    out = {"min": b.min, "max": b.max, "align": t.alignment_requirement, "str": str(t), "repr": repr(t)}
    try:
        if rbls.modulo_cost(layout.tree(spec), 32) <= 40_000:
            out["mod32"] = sorted(set(b % 32))
    except rbls.TooBig:
        pass
    return out


def _model_key(spec: typing.Any) -> typing.Any:
    """What equality is *required* to distinguish: kind, normalized string form, and the bit length set as far as the
    documented approximation sees it (min, max, residues mod 32)."""
    tr = layout.tree(spec)
    try:
        res = tuple(sorted(rbls.residues(tr, 32)))
    except rbls.TooBig:
        res = None
    return (spec[0] if spec[0] not in ("uint", "int", "float") else spec[0], layout.type_string(spec, {}), rbls.vmin(tr), rbls.vmax(tr), res)


def edit_spec(spec: typing.Any, e: typing.Any) -> typing.Any:
    """One drawn edit somewhere in the spec (may be a no-op when it does not apply)."""
    spec = copy.deepcopy(spec)
    nodes: typing.List[typing.Any] = []

    def walk(s: typing.Any) -> None:
        nodes.append(s)
        if s[0] in ("fixed", "var"):
            walk(s[1])
        elif s[0] == "delim":
            walk(s[1])
        elif s[0] in ("struct", "union"):
            for _, t in s[1]:
                walk(t)

    walk(spec)
    node = nodes[e["at"] % len(nodes)]
    k = e["kind"]
    if k == "width" and node[0] in ("uint", "int", "void"):
        node[1] = node[1] % 64 + 1 if node[0] != "int" else max(2, node[1] % 64 + 1)
    elif k == "cast" and node[0] in ("uint", "float"):
        node[2] = "trunc" if node[2] == "sat" else "sat"
    elif k == "capacity" and node[0] in ("fixed", "var"):
        node[2] = node[2] + 1
    elif k == "array-kind" and node[0] in ("fixed", "var") and node[1][0] != "utf8":
        node[0] = "var" if node[0] == "fixed" else "fixed"
    elif k == "signedness" and node[0] in ("uint", "int") and node[1] >= 2:
        if node[0] == "uint":
            node[:] = ["int", node[1]]
        else:
            node[:] = ["uint", node[1], "sat"]
    elif k == "field-name" and node[0] in ("struct", "union") and any(n for n, _ in node[1]):
        i = [j for j, (n, _) in enumerate(node[1]) if n][e["at"] % len([1 for n, _ in node[1] if n])]
        node[1][i][0] = node[1][i][0] + "_x"
    elif k == "add-field" and node[0] in ("struct", "union"):
        node[1].append(["extra_field", ["uint", 8, "sat"]])
    elif k == "slack" and node[0] == "delim":
        node[2] += 1
    elif k == "composite-kind" and node[0] == "struct" and len([1 for n, _ in node[1] if n]) >= 2 and all(n for n, _ in node[1]):
        node[0] = "union"
    return spec


def _contract(a: typing.Any, b: typing.Any, what: str, detail: str) -> None:
    require(a == a and b == b, "eq-not-reflexive:" + what, True, False, detail)
    ab, ba = (a == b), (b == a)
    require(ab == ba, "eq-not-symmetric:" + what, ab, ba, detail)
    require((a != b) == (not ab), "ne-inconsistent:" + what, not ab, a != b, detail)
    if ab:
        ha, _ = guarded(hash, a, what="hash")
        hb, _ = guarded(hash, b, what="hash")
        require(ha == hb, "equal-objects-different-hash:" + what, ha, hb, detail)
    require(hash(a) == hash(a), "hash-unstable:" + what, True, False, detail)
    require((a == 12345) is False and (a != 12345) is True, "eq-with-foreign-object:" + what, False, True, detail)


def _pickle_check(x: typing.Any, what: str, detail: str) -> typing.Any:
    data, _ = guarded(pickle.dumps, x, what="pickle.dumps")
    y, _ = guarded(pickle.loads, data, what="pickle.loads")
    require(type(y) is type(x), "pickle-class:" + what, type(x).__name__, type(y).__name__, detail)
    require(y == x and x == y, "pickle-not-equal:" + what, str(x), str(y), detail)
    require(hash(y) == hash(x), "pickle-hash:" + what, hash(x), hash(y), detail)
    require(str(y) == str(x) and repr(y) == repr(x), "pickle-str:" + what, repr(x), repr(y), detail)
    # every public property keeps its value *and* its type
    for name in sorted(dir(type(x))):
        if name.startswith("_") or not isinstance(getattr(type(x), name, None), property) or name in ("string_like",):
            continue
        try:
            vx = getattr(x, name)
        except Exception:  # pylint: disable=broad-except
            continue  # e.g. bit_length_set of a service type
        vy, _ = guarded(lambda: getattr(y, name), what="pickle-attribute:" + name)
        require(type(vy) is type(vx), "pickle-attribute-type:" + what, "%s: %s" % (name, type(vx).__name__), "%s: %s" % (name, type(vy).__name__), detail)
        try:
            same = vx == vy
        except Exception:  # pylint: disable=broad-except
            same = True
        require(bool(same), "pickle-attribute-value:" + what, "%s = %r" % (name, vx), "%s = %r" % (name, vy), detail)
    return y


def check_types(case: typing.Any, ctx: Ctx) -> Info:
    import pydsdl

    sa = layout.freeze(case["spec"])
    sb = layout.freeze(edit_spec(case["spec"], case["edit"])) if case["edit"] is not None else layout.freeze(copy.deepcopy(case["spec"]))
    try:
        if rbls.modulo_cost(layout.tree(sa), 32) > 30_000 or rbls.modulo_cost(layout.tree(sb), 32) > 30_000:
            return Info(False, ["types", "intractable"])
    except (rbls.TooBig, ValueError):
        return Info(False, ["types", "intractable"])
    ba, bb = ApiBuilder(), ApiBuilder()
    a, _ = guarded(ba.build, sa, what="construct")
    b, _ = guarded(bb.build, sb, what="construct")
    detail = "A = %s ; B = %s" % (layout.type_string(sa)[:300], layout.type_string(sb)[:300])
    _contract(a, b, "type", detail)
    ka, kb = _model_key(sa), _model_key(sb)
    # composites are named in creation order by both builders, so equal specs give equal names
    names_equal = str(a) == str(b)
    if sa == sb:
        require(a == b, "equal-descriptions-unequal:type", True, False, detail)
        require(hash(a) == hash(b), "equal-descriptions-different-hash:type", hash(a), hash(b), detail)
    elif type(a) is not type(b) or not names_equal or ka[2:] != kb[2:]:
        require(a != b, "different-types-equal", "unequal (class %s/%s, str %r/%r, layout %r/%r)" % (type(a).__name__, type(b).__name__, str(a), str(b), ka[2:], kb[2:]), "equal", detail)
    # every intermediate object too (arrays, nested composites, primitives)
    for (s1, t1) in ba.by_spec:
        _contract(t1, t1, "subtype", str(t1))
        _pickle_check(t1, "subtype", str(t1))
    y = _pickle_check(a, "type", detail)
    require(_summary(y, sa) == _summary(a, sa), "pickle-layout", _summary(a, sa), _summary(y, sa), detail)
    nested_pickle = layout.depth(sa) >= 2
    mutated = False
    # the parts of a type are values too: having used the container (==, hash, residues mod 32, pickle) leaves every nested type
    # equal to an independently built, so far untouched instance of the same description.  Children are compared before their
    # parents (creation order), so that each fresh object is still untouched when its turn comes.
    bf = ApiBuilder()
    guarded(bf.build, sa, what="construct")
    for (s1, t1), (_s2, t2) in zip(ba.by_spec, bf.by_spec):
        where = detail + " ; nested " + str(t1)
        require(bool(t1 == t2) and bool(t2 == t1), "nested-type-changed-by-use-of-container", str(t2), str(t1), where)
        require(hash(t1) == hash(t2), "nested-type-changed-by-use-of-container:hash", hash(t2), hash(t1), where)
        require(_summary(t1, s1) == _summary(t2, s1), "nested-type-changed-by-use-of-container:layout", _summary(t2, s1), _summary(t1, s1), where)
    if isinstance(a, pydsdl.CompositeType):
        from ..gen import workspace as wsp

        require(wsp.fingerprint(y) == wsp.fingerprint(a), "pickle-deep-structure", wsp.fingerprint(a), wsp.fingerprint(y), detail)
        require(y.extent == a.extent and [str(f) for f in y.attributes] == [str(f) for f in a.attributes], "pickle-attributes", [str(f) for f in a.attributes], [str(f) for f in y.attributes], detail)
        mutated = _accessor_isolation(a, case["mutation"], detail)
        # after all that poking the object still equals a freshly built one
        fresh, _ = guarded(ApiBuilder().build, sa, what="construct")
        require(a == fresh and hash(a) == hash(fresh), "object-changed-by-accessor-mutation", str(fresh), str(a), detail)
    classes = ["types", "edit:" + (case["edit"]["kind"] if case["edit"] else "none"), "top:" + sa[0], "equal" if a == b else "unequal"]
    return Info(True if (case["edit"] is not None or mutated or nested_pickle) else False, classes, sample=detail)


ACCESSORS = ["attributes", "fields", "fields_except_padding", "constants", "name_components", "namespace_components"]


def _observables(t: typing.Any) -> typing.Any:
    return {
        "str": str(t), "full_name": t.full_name, "short_name": t.short_name, "full_namespace": t.full_namespace, "root_namespace": t.root_namespace,
        "name_components": list(t.name_components), "namespace_components": list(t.namespace_components),
        "attributes": [repr(x) for x in t.attributes], "fields": [repr(x) for x in t.fields], "fields_except_padding": [repr(x) for x in t.fields_except_padding],
        "constants": [repr(x) for x in t.constants], "version": tuple(t.version), "extent": t.extent, "repr": repr(t),
    }


def _accessor_isolation(t: typing.Any, mutation: int, detail: str) -> bool:
    before = _observables(t)
    did = False
    for i, acc in enumerate(ACCESSORS):
        lst, _ = guarded(lambda: getattr(t, acc), what="accessor:" + acc)
        require(isinstance(lst, list), "accessor-not-a-list:" + acc, "list", type(lst).__name__, detail)
        original = list(lst)
        m = (mutation + i) % 4
        if m == 0:
            lst.append("INJECTED" if acc.endswith("components") else None)
        elif m == 1:
            lst.clear()
        elif m == 2:
            lst.reverse()
            lst.append(lst[0] if lst else 0)
        else:
            lst[:] = ["zzz"] * (len(lst) + 1)
        did = True
        again = getattr(t, acc)
        require(list(again) == original, "accessor-returns-internal-list:" + acc, [str(x) for x in original], [str(x) for x in again], detail)
        after = _observables(t)
        require(after == before, "object-mutated-through-accessor:" + acc, before, after, detail)
    return did


# ---------------------------------------------------------------------------------------------------------- attributes


def _build_attr(desc: typing.Any) -> typing.Any:
    import pydsdl

    t = ApiBuilder().build(layout.freeze(desc["type"]))
    if desc["k"] == "field":
        return pydsdl.Field(t, desc["name"])
    if desc["k"] == "pad":
        return pydsdl.PaddingField(pydsdl.VoidType(desc["n"]))
    v = desc["value"]
    # ("chr": the character-literal spelling of an 8-bit constant; the constant's value is the code point either way)
    val = pydsdl.Boolean(v[1]) if v[0] == "bool" else pydsdl.String(chr(v[1])) if v[0] == "chr" else pydsdl.Rational(Fraction(v[1], v[2]))
    return pydsdl.Constant(t, desc["name"], val)


def check_attributes(case: typing.Any, ctx: Ctx) -> Info:
    da, db = case["a"], case["b"]
    a, _ = guarded(_build_attr, da, what="construct-attribute")
    b, _ = guarded(_build_attr, db, what="construct-attribute")
    detail = "A = %r ; B = %r" % (da, db)
    _contract(a, b, "attribute", detail)
    def key(dd: typing.Any) -> typing.Any:
        v = dd.get("value")
        vk = None if v is None else (("bool", v[1]) if v[0] == "bool" else ("rat", Fraction(v[1])) if v[0] == "chr" else ("rat", Fraction(v[1], v[2])))
        tk = None if dd["k"] == "pad" else _model_key(layout.freeze(dd["type"]))[1:]
        return (dd["k"], dd.get("name"), dd.get("n"), tk, vk)

    if key(da) == key(db):
        require(a == b and hash(a) == hash(b), "equal-descriptions-unequal:attribute", True, False, detail)
    elif da["k"] == db["k"]:
        # (a Field and a Constant of the same type and name compare equal by design of Attribute.__eq__; not asserted either way)
        require(a != b, "different-attributes-equal", "unequal", "equal", detail)
    _pickle_check(a, "attribute", detail)
    return Info(True, ["attributes", da["k"] + "/" + db["k"], "equal" if a == b else "unequal"], sample=detail)


# -------------------------------------------------------------------------------------------------------------- values


def _build_value(v: typing.Any) -> typing.Any:
    import pydsdl

    k = v[0]
    if k == "rat":
        return pydsdl.Rational(Fraction(v[1], v[2]))
    if k == "bool":
        return pydsdl.Boolean(v[1])
    if k == "str":
        return pydsdl.String(v[1])
    return pydsdl.Set([_build_value(x) for x in v[1]])


def _value_key(v: typing.Any) -> typing.Any:
    k = v[0]
    if k == "rat":
        return ("rat", Fraction(v[1], v[2]))
    if k == "set":
        return ("set", frozenset(_value_key(x) for x in v[1]))
    return (k, v[1])


def check_values(case: typing.Any, ctx: Ctx) -> Info:
    a, _ = guarded(_build_value, case["a"], what="construct-value")
    b, _ = guarded(_build_value, case["b"], what="construct-value")
    detail = "A = %r ; B = %r" % (case["a"], case["b"])
    _contract(a, b, "value", detail)
    ka, kb = _value_key(case["a"]), _value_key(case["b"])
    if ka == kb:
        require(a == b and hash(a) == hash(b), "equal-descriptions-unequal:value", True, False, detail)
    else:
        require(a != b, "different-values-equal", "unequal", "equal", detail)
    _pickle_check(a, "value", detail)
    return Info(True, ["values", case["a"][0] + "/" + case["b"][0], "equal" if ka == kb else "unequal"], sample=detail)


# ------------------------------------------------------------------------------------------------------ bit length sets


def rewrite(tree: typing.Any, how: int) -> typing.Any:
    """A different operator tree denoting the same set."""
    k = tree[0]
    h = how % 7
    if h == 0:
        return ["cat", [tree, ["leaf", [0]]]]
    if h == 1:
        return ["uni", [tree, tree]]
    if h == 2:
        return ["pad", tree, 1]
    if h == 3:
        return ["rep", tree, 1]
    if h == 4 and k in ("cat", "uni"):
        return [k, list(reversed([rewrite(c, how // 7) for c in tree[1]]))]
    if h == 5 and k == "rep" and 1 <= tree[2] <= 4:
        return ["cat", [tree[1]] * tree[2]]
    if h == 6 and k == "pad":
        return ["pad", ["pad", tree[1], tree[2]], tree[2]]
    if k in ("cat", "uni"):
        return [k, [rewrite(c, how // 7) for c in tree[1]]]
    if k in ("rep", "rng", "pad"):
        return [k, rewrite(tree[1], how // 7), tree[2]]
    return ["uni", [tree]]


def check_bls(case: typing.Any, ctx: Ctx) -> Info:
    import pydsdl

    ta = rbls.freeze(case["a"])
    tb = rbls.freeze(rewrite(case["a"], case["how"]) if case["b"] is None else case["b"])
    a, _ = guarded(c01.build, ta, c01._Lcg(case["spell"]), [], what="build")
    b, _ = guarded(c01.build, tb, c01._Lcg(case["spell"] // 3), [], what="build")
    detail = "A = %s ; B = %s" % (rbls.render(ta), rbls.render(tb))
    try:
        if rbls.modulo_cost(ta, 32) > 40_000 or rbls.modulo_cost(tb, 32) > 40_000:
            return Info(False, ["bls", "intractable"])
    except rbls.TooBig:
        return Info(False, ["bls", "intractable"])
    _contract(a, b, "bls", detail)
    key_a = (rbls.vmin(ta), rbls.vmax(ta))
    key_b = (rbls.vmin(tb), rbls.vmax(tb))
    same: typing.Optional[bool] = None
    try:
        same = rbls.explicit(ta) == rbls.explicit(tb)
    except rbls.TooBig:
        if case["b"] is None:
            same = True  # a set-preserving rewriting
    tractable = True
    try:
        tractable = rbls.modulo_cost(ta, 32) <= 40_000 and rbls.modulo_cost(tb, 32) <= 40_000
    except rbls.TooBig:
        tractable = False
    if not tractable:
        return Info(False, ["bls", "intractable"])
    if same:
        require(a == b, "equal-sets-reported-different", "equal", "unequal", detail)
        require(hash(a) == hash(b), "equal-sets-different-hash", hash(a), hash(b), detail)
        try:
            ex = rbls.explicit(ta)
            if len(ex) <= 200:
                require(a == set(ex) and a == sorted(ex), "set-not-equal-to-its-elements", True, False, detail)
        except rbls.TooBig:
            pass
    if key_a != key_b:
        require(a != b, "sets-with-different-bounds-equal", "unequal", "equal", detail)
    require((a == "abc") is False, "eq-with-foreign-object:bls", False, True, detail)
    y = pickle.loads(pickle.dumps(a))
    require(y == a and hash(y) == hash(a) and y.min == a.min and y.max == a.max and set(y % 32) == set(a % 32), "pickle:bls", str(a), str(y), detail)
    return Info(True, ["bls", "rewritten" if case["b"] is None else "independent", "same" if same else "different" if same is False else "unknown"], sample=detail)


# ------------------------------------------------------------------------------------------- pickles that travel

TRAVEL_CHILD = r"""
import json, pickle, sys
sys.path[:0] = [%(repo)r, %(deps)r, %(verif)r]
from vf.props import c18
print(json.dumps(c18.travel_child(sys.argv[1])))
"""


def _travel_objects(case: typing.Any) -> typing.List[typing.Tuple[str, typing.Any]]:
    out: typing.List[typing.Tuple[str, typing.Any]] = []
    for i, sp in enumerate(case["specs"]):
        b = ApiBuilder()
        t = b.build(layout.freeze(sp))
        out.append(("type%d" % i, t))
        for j, (_s, sub) in enumerate(b.by_spec[:-1][:6]):
            out.append(("type%d.part%d" % (i, j), sub))
    for i, d_ in enumerate(case["attrs"]):
        out.append(("attr%d" % i, _build_attr(d_)))
    for i, v in enumerate(case["values"]):
        out.append(("value%d" % i, _build_value(v)))
    return out


def travel_child(path: str) -> typing.List[str]:
    """Runs in a process with another hash seed: what was pickled elsewhere must equal - and hash like - what is built here."""
    import json

    with open(path + ".json") as f:
        case = json.load(f)
    with open(path + ".pickle", "rb") as f:
        loaded = pickle.load(f)
    problems = []
    fresh = dict(_travel_objects(case))
    for name, obj in loaded.items():
        mine = fresh[name]
        if not (obj == mine and mine == obj):
            problems.append("%s: unpickled object differs from the one built here: %s" % (name, obj))
        elif hash(obj) != hash(mine):
            problems.append("%s: equal objects, different hashes in the loading process: %s" % (name, obj))
        elif {obj: 1}.get(mine) != 1 or mine not in {obj}:
            problems.append("%s: dict / set lookup between equal objects fails: %s" % (name, obj))
        elif str(obj) != str(mine) or repr(obj) != repr(mine):
            problems.append("%s: string forms differ" % name)
    return problems


def check_travel(case: typing.Any, ctx: Ctx) -> Info:
    import json
    import os
    import subprocess
    import sys

    objs, _ = guarded(_travel_objects, case, what="construct")
    if case["touch"]:
        for _n, o in objs:
            hash(o)  # whatever an object remembers about itself must still be right where the pickle is opened
            _ = o == o
    d = ctx.scratch()
    try:
        base = os.path.join(d, "travel")
        with open(base + ".json", "w") as f:
            json.dump(case, f)
        with open(base + ".pickle", "wb") as f:
            pickle.dump(dict(objs), f, protocol=case["protocol"])
        verif = os.path.dirname(os.path.dirname(os.path.dirname(os.path.abspath(__file__))))
        script = os.path.join(d, "child.py")
        with open(script, "w") as f:
            f.write(TRAVEL_CHILD % {"repo": ctx.repo, "deps": os.path.join(verif, ".deps"), "verif": verif})
        env = dict(os.environ, PYTHONHASHSEED=str(case["hashseed"]))
        env["PYTHONPATH"] = os.pathsep.join([ctx.repo, os.path.join(verif, ".deps"), verif])
        p = subprocess.run([sys.executable, script, base], env=env, capture_output=True, text=True, timeout=300)
        if p.returncode != 0:
            tail = (p.stderr.strip().splitlines() or [""])[-1]
            if "/pydsdl/" in p.stderr:
                raise Violation("pickle-unloadable-in-another-process", "loads", tail[:300], p.stderr[-1500:])
            raise HarnessError("travel child failed: %s" % p.stderr[-2000:])
        problems = json.loads(p.stdout.strip().splitlines()[-1])
    finally:
        ctx.cleanup(d)
    if problems:
        kind = "different-hash" if any("different hashes" in x or "lookup" in x for x in problems) else "not-equal"
        raise Violation("pickle-across-processes:" + kind, "equal objects with equal hashes", problems[:5], "PYTHONHASHSEED=%d, touched before pickling: %s" % (case["hashseed"], case["touch"]))
    ctx.extra["child_processes"] = ctx.extra.get("child_processes", 0) + 1
    return Info(True, ["travel", "objects:%d" % len(objs), "touched" if case["touch"] else "untouched", "protocol:%d" % case["protocol"]],
                sample={"objects": [n + " = " + str(o)[:80] for n, o in objs[:8]], "hashseed": case["hashseed"]})


def parts(ctx: Ctx) -> typing.List[Part]:
    specs = st.one_of(gt.composites(gt.small_capacity(), max_leaves=6), gt.composites(gt.layout_capacity(), max_leaves=5), gt.field_types(gt.small_capacity(), max_leaves=4))
    edit = st.one_of(
        st.none(),
        st.fixed_dictionaries(
            {"kind": st.sampled_from(["width", "cast", "capacity", "array-kind", "signedness", "field-name", "add-field", "slack", "composite-kind"]), "at": st.integers(0, 1000)}
        ),
    )
    type_cases = st.fixed_dictionaries({"spec": specs, "edit": edit, "mutation": st.integers(0, 3)})
    prim = st.one_of(gt.primitive(), gt.primitive(), st.tuples(gt.primitive(), st.integers(1, 3)).map(lambda t: ["fixed", t[0], t[1]]))
    names = st.sampled_from(["a", "b", "value", "A"])
    value = st.one_of(st.booleans().map(lambda b: ["bool", b]), st.tuples(st.integers(-3, 3), st.integers(1, 3)).map(lambda t: ["rat", t[0], t[1]]))

    def attr() -> st.SearchStrategy:
        return st.one_of(
            st.fixed_dictionaries({"k": st.just("field"), "type": prim, "name": names}),
            st.fixed_dictionaries({"k": st.just("pad"), "type": st.just(["void", 1]), "n": st.integers(1, 4)}),
            st.tuples(value, names).map(
                lambda t: {"k": "const", "type": ["bool"] if t[0][0] == "bool" else (["float", 64, "sat"] if t[0][2] != 1 else ["int", 8]), "name": t[1], "value": t[0]}
            ),
            # the same 8-bit constant spelled as a number and as a character literal
            st.tuples(st.sampled_from([44, 65, 97]), st.booleans(), names, st.sampled_from(["sat", "sat", "trunc"])).map(
                lambda t: {"k": "const", "type": ["uint", 8, t[3]], "name": t[2], "value": ["chr", t[0]] if t[1] else ["rat", t[0], 1]}
            ),
        )

    # pairs of the same class (the statement quantifies over those; a Field and a Constant of equal type and name compare equal by
    # design of Attribute.__eq__ and are not asserted either way)
    def respell(a: typing.Any) -> typing.Any:
        """The same attribute from a different spelling of its value (number <-> character literal, 2/2 <-> 1/1)."""
        b = copy.deepcopy(a)
        v = b.get("value")
        if v is not None and v[0] == "chr":
            b["value"] = ["rat", v[1], 1]
        elif v is not None and v[0] == "rat" and b["type"][:2] == ["uint", 8] and v[2] == 1 and 0 <= v[1] < 128:
            b["value"] = ["chr", v[1]]
        elif v is not None and v[0] == "rat":
            b["value"] = ["rat", v[1] * 2, v[2] * 2]
        return b

    attr_cases = st.one_of(
        attr().map(lambda a: {"a": a, "b": copy.deepcopy(a)}),
        attr().map(lambda a: {"a": a, "b": respell(a)}),
        st.tuples(attr(), attr()).filter(lambda t: t[0]["k"] == t[1]["k"]).map(lambda t: {"a": t[0], "b": t[1]}),
    )

    scalar = st.one_of(
        st.tuples(st.integers(-4, 4), st.integers(1, 4)).map(lambda t: ["rat", t[0], t[1]]),
        st.booleans().map(lambda b: ["bool", b]),
        st.sampled_from(["", "a", "b", "\u00e9", "e\u0301", "\u00c5", "A\u030a", "\u212b"]).map(lambda s: ["str", s]),
    )
    val = st.one_of(scalar, scalar, st.sampled_from(["rat", "str"]).flatmap(
        lambda k: st.lists(scalar.filter(lambda x: x[0] == k), min_size=1, max_size=3).map(lambda xs: ["set", xs])
    ))
    value_cases = st.one_of(val.map(lambda a: {"a": a, "b": copy.deepcopy(a)}), st.tuples(val, val).map(lambda t: {"a": t[0], "b": t[1]}))
    bls_cases = st.one_of(
        st.fixed_dictionaries({"a": gbls.trees(max_leaves=5), "b": st.none(), "how": st.integers(0, 10000), "spell": st.integers(0, 2**20)}),
        st.fixed_dictionaries({"a": gbls.trees(max_leaves=4), "b": gbls.trees(max_leaves=4), "how": st.just(0), "spell": st.integers(0, 2**20)}),
        st.fixed_dictionaries({"a": gbls.trees(max_leaves=4, huge=True), "b": st.none(), "how": st.integers(0, 10000), "spell": st.integers(0, 2**20)}),
    )
    travel_cases = st.fixed_dictionaries(
        {
            "specs": st.lists(st.one_of(gt.composites(gt.small_capacity(), max_leaves=5), gt.field_types(gt.small_capacity(), max_leaves=3)), min_size=1, max_size=4),
            "attrs": st.lists(attr(), max_size=3),
            "values": st.lists(val, max_size=3),
            "touch": st.sampled_from([True, True, False]),
            "protocol": st.integers(2, pickle.HIGHEST_PROTOCOL),
            "hashseed": st.integers(1, 2**31 - 1),
        }
    )
    return [
        Part("types", type_cases, check_types, weight=4, cost=1.5),
        Part("attributes", attr_cases, check_attributes, weight=1),
        Part("values", value_cases, check_values, weight=1),
        Part("bls", bls_cases, check_bls, weight=2),
        Part("travel", travel_cases, check_travel, weight=1, cost=12.0, min_examples=6),
    ]
