"""C13 - bad input yields InvalidDefinitionError with a path, never a crash / InternalError."""
from __future__ import annotations

import os
import re
import typing

from hypothesis import strategies as st

from ..core import pydsdl_frames, Info, Part, Ctx, Violation, HarnessError, require, guarded, crash_signature
from ..gen import defs
from ..gen.materialize import TextBuilder

ID = "C13"
TITLE = "Bad input yields InvalidDefinitionError with a path, never a crash/InternalError"
RULE = (
    "Cases are definition texts written as ns/X.1.0.dsdl (target) and ns/dep/Y.1.0.dsdl referenced from a valid target (dependency): "
    "(a) token-level mutations (delete, duplicate, swap, replace by a token of another class; 1..4 per text) of valid definitions produced "
    "by the G-DEF generator and of a fixed corpus; (b) character noise: any Unicode scalar value incl. control characters and lone CR "
    "inserted at drawn positions; (c) a targeted table of arithmetic / literal corner cases (roots of negatives, overflowing powers, huge "
    "literals, out-of-range escapes, zero divisors, deep parentheses <= 16) sunk into @print / @assert / constants / capacities / @extent; "
    "(d) arbitrary file and directory names under the namespace directory.  Oracle: the call returns a list of composites or raises an "
    "exception e with isinstance(e, InvalidDefinitionError) and e.path naming a file of the workspace; anything else is a violation keyed "
    "by (exception type, innermost pydsdl frame).  Non-trivial = the text differs from its valid origin and the parser got past the first "
    "statement (a model, an error beyond line 1, or an error other than a syntax error)."
)
ASSUMPTIONS = [
    "texts are valid Unicode, <= 2 KiB, parenthesis nesting <= 16 (the recursive-descent parser needs ~30 Python frames per level)",
    "at most one ** per line and exponent literals of <= 5 digits: towers of powers are legitimate non-terminating computations, not crashes",
    "a case that exceeds the per-case watchdog is inconclusive, never a violation",
]
BUDGET = {"quick": 900, "thorough": 18000}
# coverage-guided twins (thorough tier): part name -> executions per shard; see core.cover
COVER = {"mutation": 3000, "targeted": 2000}

ROOT = "ns"

CORPUS = [
    "# Header\nuint8 a\nint16[<=8] b # doc\nfloat32 C = 1.5e3\n@assert _offset_ % 8 == {0}\n@sealed\n",
    "@union\nuint8 a\nutf8[<=16] name\nbyte[4] blob\n@extent 64 * 8\n",
    "@deprecated\nuint8 X = 'a'\ntruncated uint3 f\nvoid5\nbool[3] flags\n@print {1, 2, 3}.count + 2 ** 8\n@sealed\n---\nfloat64 RESULT = -1/3\nuint64 r\n@extent 128\n",
    "uint8 FOO = 0x1F | 0b1010 ^ 0o7\nuint8 BAR = FOO & 255\n@assert {1, 2} < {1, 2, 3} && !(1 > 2) || \"a\" + 'b' == 'ab'\nsaturated int64 v\n@extent 8 * (2 + 6)\n",
    "Dep.1.0 d\nns.Dep.1.0[2] arr\nDep.1.0[<=3] var\n@assert Dep.1.0.SIZE == 1\n@print Dep.1.0._bit_length_\n@sealed\n",
    "uint8 a\n@assert Svc.1.0.REQ == 1\n@print Dep.1.0._extent_ + _offset_.max\n@extent 64\n---\nDep.1.0 reply\n@print _offset_\n@sealed\n",
]
DEP_TEXT = "uint8 SIZE = 1\nuint8 x\n@sealed\n"
SVC_TEXT = "uint8 REQ = 1\nuint8 a\n@sealed\n---\nuint8 b\n@extent 64\n"  # a service type: usable in expressions, never as a field type

TOKEN_RE = re.compile(r"\r\n|\n|[ \t]+|#[^\n]*|[A-Za-z_][A-Za-z0-9_]*|0[xXbBoO][0-9a-fA-F_]+|\d[\d_]*(?:\.\d*)?(?:[eE][+-]?\d+)?|'(?:[^'\\\n]|\\.)*'|\"(?:[^\"\\\n]|\\.)*\"|\*\*|<=|>=|==|!=|\|\||&&|---+|.", re.S)
REPLACEMENTS = [
    "uint8", "int64", "float16", "float17", "uint0", "uint65", "bool", "void8", "utf8", "byte", "truncated", "saturated", "true", "false", "@union", "@sealed", "@extent",
    "@deprecated", "@assert", "@print", "@", "---", "-", "+", "*", "/", "%", "**", "==", "!=", "<=", ">=", "<", ">", "|", "^", "&", "||", "&&", "!", ".", ",", "{", "}", "(", ")",
    "[", "]", "[<=", "[<", "=", "0", "1", "255", "256", "0x", "0b2", "1e5", "1.", ".5", "1e99999", "12345678901234567890123456789", "''", "'a'", "'ab'", "\"", "'", "\\", "#", "\n", "\n\n", " ",
    "\t", "\r", "_offset_", "_bit_length_", "_extent_", "min", "max", "count", "Dep.1.0", "ns.Dep.1.0", "Svc.1.0", "ns.Svc.1.0", "Nope.1.0", "Dep.1", "Dep.1.0.0", "a", "X", "é", "\u200b", "\ufeff", "\x00", "\x7f",
]

TARGETED = [
    # bases whose powers never grow, under exponents of any magnitude (what is computed is trivial; what is *estimated* about it may not be)
    "1 ** 1e400", "(-1) ** 1e310", "1 ** -1e400", "0 ** 1e400", "{1, -1} ** 1e310", "1 ** (1e400 + 1)", "(-1) ** (1e400 + 1)", "1 ** 1e4000", "(1/1) ** -1e1000", "1 ** 1.5e400",
    "(-1) ** (1/2)", "(-8) ** (1/3)", "10.5 ** 1000.5", "(10 ** 400) ** 0.5", "2 ** 0.5", "0 ** 0", "0 ** -1", "0 ** (-1/2)", "(1/3) ** (1/3)", "2 ** 1e3", "2 ** -1e3", "10 ** 4000",
    "10 ** 5000", "1e4299", "1e4300", "1e5000", "-1e5000", "1e-5000", "1 / 1e5000", "1e5000 - 1e5000", "1e5000 / 1e4999", "1e99999", "'\\U00110000'", "'\\UFFFFFFFF'", "'\\ud800'",
    "'\\udfff' + '\\ud800'", "'\\u12'", "'\\x41'", "'\\", "'\\q'", "\"\\N\"", "1 % 0", "1 / 0", "{1} / 0", "0 / {0}", "{1, 2} % {1}", "{} | {}", "{1, 'a'}", "{{1}, {'a'}}", "{{1}, {2}}.min",
    "{'a', 'b'}.min", "{true}.max", "{1}.nope", "1.count", "true.min", "'a' < 'b'", "true < false", "1 == true", "'1' == 1", "{1} == 1", "!1", "-true", "+'a'", "1 | 1.5", "1.5 ^ 2",
    "1 & {1}", "1 && true", "true || 1", "1 < {1}", "uint8", "uint8 == uint8", "uint8.min", "uint8._bit_length_", "Dep.1.0", "Dep.1.0 == Dep.1.0", "Dep.1.0.NOPE", "Dep.1.0._extent_",
    "Dep.1.0._bit_length_.max", "Svc.1.0", "Svc.1.0._extent_", "Svc.1.0._bit_length_", "Svc.1.0.REQ", "Svc.1.0.request", "Svc.1.0 == Svc.1.0", "{Svc.1.0}", "Svc.1.0.Request.1.0", "_offset_", "_offset_.count", "_offset_ == 1", "_nope_", "nope", "((((((((((((((((1))))))))))))))))", "{{{{{{{{{{{{{{{{1}}}}}}}}}}}}}}}}",
    "- - 1", "!!!true", "1 ** 2 ** 3", "0x", "0b", "0o8", "1__0", "1_", "_1", "1e", "1e+", ".", "1..2", "08", "00", "0_0", "1.5e3.min", "''''", "'a''b'", "\"a\" \"b\"",
    "9999999999999999999999999999999999999999 * 9999999999999999999999999999999999999999", "255 + 1", "-(2 ** 63)", "2 ** 64", "1e308 * 10", "1/3", "utf8", "void8", "byte",
]
SINKS = ["Svc.1.0 svc\n@print {e}", "Svc.1.0[<=2] svcs\n@print _offset_ == {e}", "@print {e}", "@assert {e}", "@assert {e} == {e}", "uint8 X = {e}", "float64 X = {e}", "int64 X = {e}", "bool X = {e}", "float16 X = {e}", "uint8[{e}] arr", "uint8[<={e}] arr", "uint8[<{e}] arr", "@extent {e}", "@print {{{e}}}", "@print ({e}).count", "@print !({e})", "@print -({e})", "@print ({e}) ** 2", "@print ({e}) % 7"]


# corner operands x what can be done to an operand: every combination is a one-line expression that must be evaluated or rejected,
# never crash - in particular results that the operand constructors never produce themselves (an intersection that comes out empty,
# a symmetric difference of equal sets) followed by the operations that assume a non-empty, homogeneous operand
CORNER_BASES = ["{1, 2} & {3, 4}", "{1, 2} ^ {2, 1}", "{'a'} & {'b'}", "{1} & {2} | {3} & {4}", "{true} ^ {true}", "({1} | {2}) & {3}", "{1, 2} & {2, 3}", "{1/2} ^ {0.5}",
                "{1e5000} & {1}", "{{1}} & {{2}}", "{}", "{1}", "{'a', 'b'}", "{true, false}", "1", "'a'", "true", "1/3", "1e5000", "Dep.1.0", "uint8", "_offset_", "Dep.1.0._bit_length_"]
CORNER_WRAPS = ["(%s).min", "(%s).max", "(%s).count", "(%s) + 1", "1 - (%s)", "(%s) == (%s)", "{%s}", "(%s) | (%s)", "(%s) & {1}", "!(%s)", "-(%s)", "(%s) ** 2", "(%s) % 0", "(%s) < (%s)",
                "(%s) * {2}", "(%s).min.max", "(%s) + 'x'", "(%s) / (%s)", "(%s) || true", "1 ** (%s)", "(-1) ** (%s)"]  # (no "2 ** (%s)": a tower over 1e5000 is a legitimate endless computation)


def corner_expression(base: int, wraps: typing.Sequence[int]) -> str:
    e = CORNER_BASES[base % len(CORNER_BASES)]
    for w in wraps:
        t = CORNER_WRAPS[w % len(CORNER_WRAPS)]
        e = t.replace("%s", e)
    return e


def sanitize(text: str) -> str:
    """Keep the input inside the bounded quantifier: <= 2 KiB, one ** per line, short exponent literals, nesting <= 16."""
    text = text[:2048]
    out_lines = []
    for line in text.split("\n"):
        first = line.find("**")
        if first >= 0:
            line = line[: first + 2] + line[first + 2 :].replace("**", "*")
        line = re.sub(r"([eE][+-]?)(\d{5})\d+", r"\1\2", line)
        depth = 0
        chars = []
        for ch in line:
            if ch in "({[":
                depth += 1
                if depth > 16:
                    continue
            elif ch in ")}]":
                if depth > 16:
                    depth -= 1
                    continue
                depth = max(0, depth - 1)
            chars.append(ch)
        out_lines.append("".join(chars))
    return "\n".join(out_lines)


def mutate(text: str, ops: typing.List[typing.Any]) -> str:
    tokens = TOKEN_RE.findall(text)
    for op in ops:
        if not tokens:
            tokens = [""]
        kind, pos = op[0], op[1] % len(tokens)
        if kind == "delete":
            del tokens[pos]
        elif kind == "duplicate":
            tokens.insert(pos, tokens[pos])
        elif kind == "swap" and len(tokens) > 1:
            q = (pos + 1) % len(tokens)
            tokens[pos], tokens[q] = tokens[q], tokens[pos]
        elif kind == "replace":
            tokens[pos] = REPLACEMENTS[op[2] % len(REPLACEMENTS)]
        elif kind == "insert":
            tokens.insert(pos, REPLACEMENTS[op[2] % len(REPLACEMENTS)])
        elif kind == "char":
            tokens.insert(pos, op[2])
        elif kind == "truncate":
            tokens = tokens[: pos + 1]
    return "".join(tokens)


def _runaway(ex: BaseException) -> str:
    """Which recursion ran away is the root cause: the chain of set operators that a long attribute list builds (one level per
    attribute) - or the parser, the reader following references, ... (then the plain signature stays)."""
    frames = pydsdl_frames(ex)
    if frames and all("_bit_length_set/" in f for f in frames[-12:]):
        return "@_bit_length_set/_symbolic (operator chain as deep as the attribute list is long)"
    return ""


def _short(files: typing.Dict[str, typing.Any]) -> str:
    return "%s" % {k: (v if not isinstance(v, str) or len(v) < 400 else v[:200] + " ... " + v[-100:]) for k, v in files.items()}


def _outcome(ctx: Ctx, files: typing.Dict[str, str], what: str, extra_roots: typing.Sequence[str] = ()) -> typing.Tuple[str, typing.Any]:
    """Writes the workspace, reads ns, classifies the outcome; raises Violation for anything but model / InvalidDefinitionError+path."""
    import pydsdl

    d = ctx.scratch()
    try:
        for rel, text in files.items():
            p = os.path.join(d, rel)
            try:
                os.makedirs(os.path.dirname(p), exist_ok=True)
                if isinstance(text, (list, tuple)):
                    # a name in the namespace directory need not name a regular text file
                    if text[0] == "dir":
                        os.makedirs(p, exist_ok=True)
                    elif text[0] == "link":
                        os.symlink(os.path.join(d, text[1]), p)
                    elif text[0] == "bytes":
                        with open(p, "wb") as fb:
                            fb.write(bytes.fromhex(text[1]))
                    continue
                with open(p, "w", newline="", encoding="utf-8") as f:
                    f.write(text)
            except OSError:
                continue  # the file system refuses this name (file/directory clash, too long, ...): not part of the case
        root = os.path.join(d, ROOT)
        os.makedirs(root, exist_ok=True)  # a directory that does not exist is a documented OSError, outside this property
        try:
            # The library is called with the stack head-room of an ordinary program (the interpreter's default limit of 1000 frames,
            # counted from here); the test library raises the limit while it runs a case, which would hide recursion that runs away
            # for users.
            import inspect
            import sys

            saved_limit = sys.getrecursionlimit()
            sys.setrecursionlimit(len(inspect.stack(0)) + 1000)
            try:
                res = pydsdl.read_namespace(root, [os.path.join(d, r) for r in extra_roots])
            finally:
                sys.setrecursionlimit(saved_limit)
            return "model", len(res)
        except pydsdl.InvalidDefinitionError as ex:
            listing = {os.path.realpath(os.path.join(dp, fn)) for dp, _, fns in os.walk(d) for fn in fns} | {
                os.path.realpath(os.path.join(dp, dn)) for dp, dns, _ in os.walk(d) for dn in dns
            }
            p = ex.path
            require(p is not None, "error-without-path:" + type(ex).__name__, "path of the offending file", None, "%s: %s\n%r" % (type(ex).__name__, ex, files))
            require(os.path.realpath(str(p)) in listing, "error-path-outside-workspace", "a file of the workspace", str(p), "%r" % files)
            return "error", (type(ex).__name__, ex.line)
        except RecursionError as ex:
            raise Violation("crash:RecursionError" + _runaway(ex), "InvalidDefinitionError or a model", repr(ex)[:200], _short(files))
        except MemoryError:
            raise
        except Exception as ex:  # pylint: disable=broad-except
            sig = crash_signature(ex)
            inner_: typing.Any = ex
            for _hop in range(8):
                inner_ = getattr(inner_, "__cause__", None)
                if inner_ is None:
                    break
                if isinstance(inner_, RecursionError) and _runaway(inner_):
                    sig = "crash:RecursionError" + _runaway(inner_)  # the same root cause, met inside read() and wrapped
                    break
            chain = [ex, getattr(ex, "__cause__", None), getattr(getattr(ex, "__cause__", None), "__cause__", None)]
            if any(c is not None and "Exceeds the limit (4300 digits)" in str(c) for c in chain) or "Exceeds%20the%20limit%20%284300%20digits%29" in str(ex):
                sig = "crash:int-max-str-digits"  # one root cause, many call sites that format a huge integer
            raise Violation(sig, "InvalidDefinitionError or a model", "%s: %s" % (type(ex).__name__, str(ex)[:400]), "%s: %r" % (what, files)) from ex
    finally:
        ctx.cleanup(d)


def _classify(kind: str, outcome: typing.Tuple[str, typing.Any], changed: bool) -> Info:
    o, detail = outcome
    classes = ["kind:" + kind, "outcome:" + (o if o == "model" else detail[0])]
    deep = o == "model" or (detail[1] or 0) > 1 or detail[0] != "DSDLSyntaxError"
    return Info(bool(changed and deep), classes)


def check_text(case: typing.Any, ctx: Ctx) -> Info:
    origin = case["origin"]
    if origin == "raw":
        base = ""
        files = {ROOT + "/Dep.1.0.dsdl": DEP_TEXT, ROOT + "/Svc.1.0.dsdl": SVC_TEXT}
    elif isinstance(origin, int):
        base = CORPUS[origin % len(CORPUS)]
        files = {ROOT + "/Dep.1.0.dsdl": DEP_TEXT, ROOT + "/Svc.1.0.dsdl": SVC_TEXT}
    else:
        # a generated valid definition with its dependencies
        scratch = ctx.scratch()
        try:
            tb = TextBuilder(scratch, ROOT)
            base = defs.render(origin["model"], origin["format"], tb)
            files = {ROOT + "/" + fn: tx for fn, tx in tb.files.items()}
            files[ROOT + "/Dep.1.0.dsdl"] = DEP_TEXT
            files[ROOT + "/Svc.1.0.dsdl"] = SVC_TEXT
        finally:
            ctx.cleanup(scratch)
    text = sanitize(case["text"]) if origin == "raw" else sanitize(mutate(base, case["ops"]))
    if case["as_dependency"]:
        files[ROOT + "/dep/Y.1.0.dsdl"] = text
        files[ROOT + "/X.1.0.dsdl"] = "ns.dep.Y.1.0 y\n@sealed\n"
    else:
        files[ROOT + "/X.1.0.dsdl"] = text
    out = _outcome(ctx, files, "mutated")
    info = _classify("mutation", out, text != base)
    info.classes = list(info.classes) + ["as-dependency" if case["as_dependency"] else "as-target"] + ["op:" + op[0] for op in case["ops"]]
    info.sample = {"text": text, "outcome": out}
    return info


def check_targeted(case: typing.Any, ctx: Ctx) -> Info:
    # (curated replays carry the texts themselves, so that they survive additions to the tables)
    expr = case["expr"] if isinstance(case["expr"], str) else TARGETED[case["expr"] % len(TARGETED)]
    sink = case["sink"] if isinstance(case["sink"], str) else SINKS[case["sink"] % len(SINKS)]
    line = sink.replace("{e}", expr)
    before = ["uint8 a", "Dep.1.0 d", "# comment", ""][: case["before"] % 5]
    # long but flat: many attributes in one definition (nothing is nested; the text stays within a few KiB)
    many = case.get("many_fields", 0)
    before = ["%s m%d" % (["uint8", "bool", "uint8[<=2]", "float16", "uint3"][many % 5], i) for i in range(many)] + before
    lines = before + [line]
    if not line.startswith("@extent"):
        lines.append("@sealed")
    text = "\n".join(sanitize(x) for x in lines) + ("\n" if case["newline"] else "")
    files = {ROOT + "/Dep.1.0.dsdl": DEP_TEXT, ROOT + "/Svc.1.0.dsdl": SVC_TEXT}
    if case["as_dependency"]:
        files[ROOT + "/dep/Y.1.0.dsdl"] = text
        files[ROOT + "/X.1.0.dsdl"] = "ns.dep.Y.1.0 y\n@sealed\n"
    else:
        files[ROOT + "/X.1.0.dsdl"] = text
    out = _outcome(ctx, files, "targeted")
    info = _classify("targeted", out, True)
    info.nontrivial = True
    info.sample = {"text": text, "outcome": out}
    return info


def check_names(case: typing.Any, ctx: Ctx) -> Info:
    files = {}
    bodies = ["@sealed\n", "uint8 a\n@sealed\n", "uint16 b\n@extent 64\n"]
    for i, (dirs, name) in enumerate(case["entries"]):
        rel = "/".join([ROOT] + [d_ for d_ in dirs] + [name])
        files[rel] = bodies[i % len(bodies)]
    twin = case.get("twin")
    if twin is not None:
        # two files that designate the same (name, version): port-ID prefix or legacy extension, same or different body
        dirs = twin["dirs"]
        base = "/".join([ROOT] + list(dirs))
        files[base + "/Twin.1.0.dsdl"] = bodies[0]
        other = {0: "6200.Twin.1.0.dsdl", 1: "Twin.1.0.uavcan", 2: "6201.Twin.1.0.uavcan"}[twin["kind"] % 3]
        files[base + "/" + other] = bodies[twin["body"] % len(bodies)]
    special = case.get("special")
    if special is not None:
        # a well-formed definition file *name* that names something else: a directory, a symbolic link (to a definition inside the
        # namespace, to a file outside of it, to nothing), a file that is not text
        rel = "/".join([ROOT] + list(special["dirs"]) + [special["name"]])
        kind = special["kind"] % 6
        if kind == 5:
            files[rel] = ["link", rel]  # a link to itself
        elif kind == 0:
            files[rel] = ["dir"]
        elif kind == 1:
            files["outside/Elsewhere.1.0.dsdl"] = bodies[1]
            files[rel] = ["link", "outside/Elsewhere.1.0.dsdl"]
        elif kind == 2:
            files[ROOT + "/Real.1.0.dsdl"] = bodies[1]
            files[rel] = ["link", ROOT + "/Real.1.0.dsdl"]
        elif kind == 3:
            files[rel] = ["link", "nowhere/Gone.1.0.dsdl"]
        else:
            junk = ["ff", "c3", "e28228", "80", "f0288cbc", "fffe410042", "b0", "e9"][special["bytes"] % 8]
            # not text at all / a stray byte in a comment / inside a string literal that is compared, printed, or initialises a constant
            templates = ["%s0a407365616c65640a", "2320636f6d6d656e7420%s0a407365616c65640a", "75696e7438204445475245452d3d2027%s270a407365616c65640a".replace("2d", ""),
                         "407072696e742027%s270a407365616c65640a", "4061737365727420272027203d3d2027%s270a407365616c65640a", "75696e74382061202320%s0a407365616c65640a",
                         "696e7431362058203d2022%s220a407365616c65640a"]
            files[rel] = ["bytes", templates[(special["bytes"] // 8) % len(templates)] % junk]
    out = _outcome(ctx, files, "names")
    info = _classify("names", out, True)
    if special is not None:
        info.classes = list(info.classes) + ["special:" + ["directory", "link-outside", "link-inside", "link-dangling", "not-text", "link-loop"][special["kind"] % 6]]
    info.nontrivial = True
    info.sample = {"files": sorted(files), "outcome": out}
    return info


def _name_component() -> st.SearchStrategy:
    safe = st.characters(blacklist_categories=("Cs",), blacklist_characters="/\x00")
    return st.one_of(
        st.sampled_from(["Foo", "foo", "a", "1", "0", "255", "256", "-1", "+5", "1_0", "٣", " 1", "1e3", "0x10", "", " ", "int8", "true", "_x_", "x" * 100, "9" * 5000, "é", "a b"]),
        st.text(alphabet=safe, min_size=0, max_size=6),
    )


def _numericish() -> st.SearchStrategy:
    """What may stand where a number is expected (port-ID, major, minor): decimal numbers, spellings int() accepts or refuses, and
    characters of every Unicode number category (str.isdigit / isdecimal / isnumeric disagree with int() on many of them)."""
    uni = st.text(alphabet=st.characters(whitelist_categories=("Nd", "No", "Nl")), min_size=1, max_size=3)
    return st.one_of(
        st.integers(0, 70000).map(str),
        st.sampled_from(["0", "1", "00", "007", "+1", "-0", "1_0", " 1", "1 ", "", "0x1", "1e1", "1.0", "\u00b2", "\u2460", "\u0663", "\uff11", "\u2082", "\u00bd", "\u2167", "9" * 30]),
        uni,
        st.tuples(st.integers(0, 9).map(str), uni).map("".join),
    )


def _file_name() -> st.SearchStrategy:
    comps = st.lists(_name_component(), min_size=0, max_size=5)
    ext = st.sampled_from([".dsdl", ".dsdl", ".dsdl", ".uavcan", ".DSDL", ".dsdl.bak", ""])
    free = st.tuples(comps, ext).map(lambda t: ".".join(t[0]) + t[1])
    short = st.sampled_from(["Foo", "T", "a", "_", "Foo2", "é"])
    # the documented shapes [port.]Short.major.minor.ext with the numeric slots drawn from the numeric-ish pool
    shaped = st.one_of(
        st.tuples(short, _numericish(), _numericish(), ext).map(lambda t: "%s.%s.%s%s" % t),
        st.tuples(_numericish(), short, _numericish(), _numericish(), ext).map(lambda t: "%s.%s.%s.%s%s" % t),
        st.tuples(_numericish(), short, st.sampled_from(["1", "0"]), st.sampled_from(["0", "1"]), ext).map(lambda t: "%s.%s.%s.%s%s" % t),
    )
    return st.one_of(free, shaped).filter(lambda n: n not in ("", ".", "..") and "/" not in n and "\x00" not in n and len(n.encode("utf-8")) < 250)


def _dir_name() -> st.SearchStrategy:
    return st.one_of(st.sampled_from(["sub", "a.b", "int8", "x y", "é", "1", "_", "__", "Sub"]), _name_component()).filter(
        lambda n: n not in ("", ".", "..") and "/" not in n and "\x00" not in n and len(n.encode("utf-8")) < 200
    )


def fuzz_decode(data: bytes) -> typing.Any:
    """First byte: flags (bit 0: offer the text as a dependency instead of as the target); the rest: UTF-8 text."""
    if not data:
        return None
    text = data[1:].decode("utf-8", errors="ignore").replace("\r\n", "\n")
    return {"origin": "raw", "text": text, "ops": [], "as_dependency": bool(data[0] & 1)}


def fuzz_corpus(ctx: Ctx) -> typing.List[bytes]:
    return [b"\x00" + t.encode() for t in CORPUS] + [b"\x01" + CORPUS[0].encode(), b"\x00@sealed\n"]


def parts(ctx: Ctx) -> typing.List[Part]:
    op = st.one_of(
        st.tuples(st.sampled_from(["delete", "duplicate", "swap", "truncate"]), st.integers(0, 4000)),
        st.tuples(st.sampled_from(["replace", "insert"]), st.integers(0, 4000), st.integers(0, 10000)),
        st.tuples(st.just("char"), st.integers(0, 4000), st.one_of(st.characters(blacklist_categories=("Cs",)), st.sampled_from(["\r", "\x00", "\x0b", "\x0c", "\x85", "\u2028", "\ufeff", "\t", "\\"]))),
    ).map(list)
    generated_origin = st.fixed_dictionaries({"model": defs.definitions(), "format": defs.formats()})
    mutation_cases = st.fixed_dictionaries(
        {
            "origin": st.one_of(st.integers(0, len(CORPUS) - 1), st.integers(0, len(CORPUS) - 1), generated_origin),
            "ops": st.lists(op, min_size=1, max_size=4),
            "as_dependency": st.booleans(),
        }
    )
    # magnitudes around the limits of the machine types that error messages and conversions go through (float: 2**1024 ~ 1.8e308,
    # decimal str of an int: 4300 digits), as integers and as non-integral rationals, of either sign
    magnitude = st.one_of(
        st.integers(300, 312).map(lambda n: "1e%d" % n), st.integers(1020, 1027).map(lambda n: "2 ** %d" % n), st.sampled_from(["10 ** 400", "1e400", "1e999", "1e4000", "1e4290", "10 ** 4298"]),
        st.integers(300, 330).map(lambda n: "1e-%d" % n), st.sampled_from(["1e-400", "1 / 1e4000", "2 ** -1080"]),
    )
    tail = st.sampled_from(["", " / 3", " + 0.5", " + 1/3", " * 1.5", " - 1", " / 7 * 2", " * 3"])
    extreme = st.tuples(st.sampled_from(["", "-"]), magnitude, tail).map(lambda t: t[0] + "(" + t[1] + ")" + t[2] if t[0] else t[1] + t[2])
    composed = st.tuples(st.integers(0, len(CORNER_BASES) - 1), st.lists(st.integers(0, len(CORNER_WRAPS) - 1), min_size=1, max_size=2)).map(lambda t: corner_expression(t[0], t[1]))
    targeted_cases = st.fixed_dictionaries(
        {"expr": st.one_of(st.integers(0, len(TARGETED) - 1), st.integers(0, len(TARGETED) - 1), extreme, composed, composed), "sink": st.integers(0, len(SINKS) - 1), "before": st.integers(0, 4), "newline": st.booleans(), "as_dependency": st.booleans(),
         "many_fields": st.sampled_from([0, 0, 0, 0, 0, 0, 40, 120, 181, 200, 260])}
    )
    twin = st.one_of(st.none(), st.none(), st.fixed_dictionaries({"dirs": st.lists(st.sampled_from(["sub", "x"]), max_size=1), "kind": st.integers(0, 2), "body": st.integers(0, 2)}))
    special = st.one_of(
        st.none(),
        st.none(),
        st.fixed_dictionaries({"kind": st.integers(0, 5), "dirs": st.lists(st.sampled_from(["sub", "deep"]), max_size=2), "name": st.sampled_from(["Odd.1.0.dsdl", "7000.Odd.1.0.dsdl", "Odd.1.0.uavcan", "A.2.3.dsdl"]), "bytes": st.integers(0, 55)}),
    )
    name_cases = st.fixed_dictionaries({"entries": st.lists(st.tuples(st.lists(_dir_name(), max_size=2), _file_name()), min_size=0, max_size=3), "twin": twin, "special": special})
    out = [
        Part("mutation", mutation_cases, check_text, weight=5),
        Part("targeted", targeted_cases, check_targeted, weight=3),
        Part("names", name_cases, check_names, weight=2),
    ]
    if ctx.tier != "quick":
        # coverage-guided (atheris / libFuzzer); even shards start from the corpus above, odd shards from an empty one
        out.append(Part("fuzz-text", None, check_text, weight=6, fuzz_decode=fuzz_decode, fuzz_corpus=fuzz_corpus,
                        fuzz_dict=[t for t in REPLACEMENTS if t.strip() and all(ord(c) < 128 for c in t)]))
    return out
