"""C10 - namespace reading is complete, ordered and deterministic."""
from __future__ import annotations

import copy
import json
import os
import subprocess
import sys
import typing

from hypothesis import strategies as st

from ..core import Info, Part, Ctx, Violation, HarnessError, require, guarded
from ..gen import workspace as wsp
from . import _nsutil as nu

ID = "C10"
TITLE = "Namespace reading is complete, ordered and deterministic"
RULE = (
    "(Part files-same-name: several directories of one name contribute to a root namespace; roots designated by bare name, by paths, mixed, or targets in the documented relative form <root>/<ns>/File found under the parent of a root.  Spellings include <link to the directory>/../<name>; directory sets include siblings whose names merely start like another directory's: ns-backup, ns (copy).)  "
    "Cases are workspaces on disk (1..3 root namespace directories, nesting depth 0..2, <= 8 definitions, several versions of a name, "
    "legacy .uavcan files, non-definition files, acyclic references incl. cross-root) x a way of calling the API: read_namespace(root, "
    "lookups) with every directory argument spelled in a drawn way (absolute str / Path, relative to cwd, ./-prefixed, with a .. segment, "
    "trailing separator, through a symlink, duplicated, permuted) or read_files(target subset in drawn order with duplicates, roots) x "
    "schedules: an in-process hash salt (the hashes of paths, definitions and composites are perturbed consistently with equality - a "
    "stand-in for PYTHONHASHSEED that reorders every set the reader keeps), a permuted Path.rglob, real child processes started "
    "with different PYTHONHASHSEED values, and (read_files) a call that follows a failed call in the same process.  Oracles: reference listing / sort order / dependency closure model (exactly one composite per "
    "file under the root, sorted by name then newest version first; read_files: direct == requested, transitive == closure minus direct, "
    "disjoint, same order, fingerprints equal to read_namespace's) and metamorphic equality of the canonical result across all "
    "spellings, salts, enumeration orders and hash seeds; directory sets are rejected with InvalidDefinitionError exactly when one lies "
    "inside another or (collisions disallowed) two distinct ones share a name ignoring case.  Non-trivial = >= 2 versions of a name, or "
    ">= 2 roots, or a spelling other than the plain absolute path, or a read_files subset with non-empty transitive."
)
ASSUMPTIONS = [
    "(full name, version) is unique across the target namespace (the Specification forbids otherwise); directories passed to the API exist",
    "file-system enumeration order is simulated (permuted rglob), case-insensitive file systems are not available in the sandbox",
]
BUDGET = {"quick": 260, "thorough": 5200}


def _write(ctx: Ctx, ws: typing.Any, extra_files: bool) -> str:
    d = ctx.scratch()
    wsp.write(ws, d)
    if extra_files:
        for i in range(len(ws["roots"])):
            rd = os.path.join(d, wsp.root_dir(ws, i))
            for name, text in (("README.md", "# not a definition"), ("Old.1.0.dsdl.bak", "garbage"), ("notes.txt", "x"), ("dsdl", "")):
                with open(os.path.join(rd, name), "w") as f:
                    f.write(text)
            os.makedirs(os.path.join(rd, "emptydir"), exist_ok=True)
    os.makedirs(os.path.join(d, "links"), exist_ok=True)
    return d


def _check_namespace_result(ws: typing.Any, root_index: int, types: typing.Any, base: str, where: str) -> typing.List[typing.Any]:
    want = nu.expected_order(ws, wsp.defs_under_root(ws, root_index))
    got_ids = [wsp.ident(t) for t in types]
    want_ids = [(wsp.full_name(ws, ws["defs"][i]), ws["defs"][i]["version"][0], ws["defs"][i]["version"][1]) for i in want]
    if got_ids != want_ids:
        if sorted(got_ids) == sorted(want_ids):
            raise Violation("namespace-order", want_ids, got_ids, where)
        if len(set(got_ids)) != len(got_ids):
            raise Violation("namespace-duplicate", want_ids, got_ids, where)
        missing = [x for x in want_ids if x not in got_ids]
        extra = [x for x in got_ids if x not in want_ids]
        raise Violation("namespace-missing" if missing else "namespace-extra", want_ids, got_ids, where + " missing %s extra %s" % (missing, extra))
    canon = nu.canonical(ws, types, base)
    for (ids, path, rootp, _fp), i in zip(canon, want):
        require(path == wsp.rel_path(ws, ws["defs"][i]), "namespace-source-path", wsp.rel_path(ws, ws["defs"][i]), path, where)
        require(rootp == wsp.root_dir(ws, root_index), "namespace-source-root", wsp.root_dir(ws, root_index), rootp, where)
    return canon


def check_namespace(case: typing.Any, ctx: Ctx) -> Info:
    import pydsdl

    ws = case["ws"]
    d = _write(ctx, ws, case["extra_files"])
    try:
        ri = case["target_root"] % len(ws["roots"])
        all_roots = [os.path.join(d, wsp.root_dir(ws, i)) for i in range(len(ws["roots"]))]
        where = "workspace %s root %s" % (sorted(wsp.rel_path(ws, x) for x in ws["defs"]), wsp.root_dir(ws, ri))
        base, _ = guarded(pydsdl.read_namespace, all_roots[ri], all_roots, what="read_namespace:baseline")
        canon0 = _check_namespace_result(ws, ri, base, d, where)
        # the same namespace, asked for differently and under a different schedule
        lookups = []
        for lk in case["lookups"]:
            lookups.append(nu.spell_directory(d, wsp.root_dir(ws, lk["root"] % len(ws["roots"])), lk["style"], os.path.join(d, "links")))
        present = {lk["root"] % len(ws["roots"]) for lk in case["lookups"]}
        for i in range(len(ws["roots"])):
            if i not in present:
                lookups.append(nu.spell_directory(d, wsp.root_dir(ws, i), case["root_style"] + i, os.path.join(d, "links")))
        root_arg = nu.spell_directory(d, wsp.root_dir(ws, ri), case["root_style"], os.path.join(d, "links"))
        lookup_arg: typing.Any = lookups
        if len(lookups) == 1 and case["single_lookup_as_scalar"]:
            lookup_arg = lookups[0]
        lookup_arg_shown = repr(lookup_arg)
        lookup_arg = nu.as_container(lookup_arg, case.get("container", 0))
        with nu.cwd(d), nu.salted_hashes(case["salt"]), nu.permuted_rglob(case["rglob_seed"]):
            alt, _ = guarded(pydsdl.read_namespace, root_arg, lookup_arg, what="read_namespace:variant")
            canon1 = _check_namespace_result(ws, ri, alt, d, where + " variant root=%r lookups=%s (container form %d) salt=%d" % (root_arg, lookup_arg_shown, case.get("container", 0) % 6, case["salt"]))
        require(canon1 == canon0, "namespace-result-depends-on-call", canon0, canon1, where + " root=%r lookups=%s salt=%d rglob=%d" % (root_arg, lookup_arg_shown, case["salt"], case["rglob_seed"]))
    finally:
        ctx.cleanup(d)
    names = [wsp.full_name(ws, x) for x in ws["defs"]]
    multi_version = len(set(names)) < len(names)
    classes = ["roots:%d" % len(ws["roots"]), "defs:%d" % len(ws["defs"]), "root-style:%d" % (case["root_style"] % 10)]
    if multi_version:
        classes.append("multi-version")
    if case["salt"]:
        classes.append("salted")
    if any(x.get("legacy") for x in ws["defs"]):
        classes.append("legacy-ext")
    nontrivial = multi_version or len(ws["roots"]) >= 2 or case["root_style"] % 10 != 0
    return Info(nontrivial, classes, sample={"files": sorted(wsp.rel_path(ws, x) for x in ws["defs"]), "root": repr(root_arg), "lookups": lookup_arg_shown})


def _failed_call(ctx: Ctx) -> None:
    """A read that fails half-way (one dependency resolved, the next one missing) in this very process: whatever it leaves behind
    must not leak into the calls that follow."""
    import pydsdl

    d = ctx.scratch()
    try:
        root = os.path.join(d, "zz")
        os.makedirs(root)
        for fn, text in (("Good.1.0.dsdl", "uint8 a\n@sealed\n"), ("Other.1.0.dsdl", "Good.1.0 g\n@sealed\n"),
                         ("T.1.0.dsdl", "Good.1.0 g\nOther.1.0 o\nMissing.1.0 m\n@sealed\n")):
            with open(os.path.join(root, fn), "w") as f:
                f.write(text)
        try:
            pydsdl.read_files([os.path.join(root, "T.1.0.dsdl")], [root])
        except pydsdl.InvalidDefinitionError:
            pass
    finally:
        ctx.cleanup(d)


def check_files(case: typing.Any, ctx: Ctx) -> Info:
    import pydsdl

    ws = case["ws"]
    d = _write(ctx, ws, False)
    try:
        if case.get("after_failure"):
            _failed_call(ctx)
        n = len(ws["defs"])
        targets = []
        for t in case["targets"]:
            if t % n not in targets:
                targets.append(t % n)
        all_roots = [os.path.join(d, wsp.root_dir(ws, i)) for i in range(len(ws["roots"]))]
        where = "workspace %s targets %s" % (sorted(wsp.rel_path(ws, x) for x in ws["defs"]), [wsp.rel_path(ws, ws["defs"][i]) for i in targets])
        # reference: what read_namespace yields for every file
        by_ident: typing.Dict[typing.Any, typing.Any] = {}
        for i in range(len(ws["roots"])):
            res, _ = guarded(pydsdl.read_namespace, all_roots[i], all_roots, what="read_namespace:reference")
            for c in nu.canonical(ws, res, d):
                by_ident[tuple(c[0])] = c
        want_direct = nu.expected_order(ws, targets)
        want_trans = nu.expected_order(ws, wsp.closure(ws, targets) - set(targets))

        def ids(indices: typing.Iterable[int]) -> typing.List[typing.Any]:
            return [(wsp.full_name(ws, ws["defs"][i]), ws["defs"][i]["version"][0], ws["defs"][i]["version"][1]) for i in indices]

        def run(paths: typing.List[typing.Any], roots: typing.Any, salt: int, what: str) -> typing.Any:
            with nu.cwd(d), nu.salted_hashes(salt), nu.permuted_rglob(case["rglob_seed"] if salt else 0):
                (direct, trans), _ = guarded(pydsdl.read_files, paths, roots, what=what)
            gd, gt = [wsp.ident(t) for t in direct], [wsp.ident(t) for t in trans]
            w = where + " call paths=%r roots=%r salt=%d" % (paths, roots, salt)
            if gd != ids(want_direct):
                raise Violation("files-direct-order" if sorted(gd) == sorted(ids(want_direct)) else "files-direct-set", ids(want_direct), gd, w)
            if gt != ids(want_trans):
                raise Violation("files-transitive-order" if sorted(gt) == sorted(ids(want_trans)) else "files-transitive-set", ids(want_trans), gt, w)
            require(not (set(gd) & set(gt)), "files-not-disjoint", "disjoint", sorted(set(gd) & set(gt)), w)
            canon = [nu.canonical(ws, direct, d), nu.canonical(ws, trans, d)]
            for c in canon[0] + canon[1]:
                require(c == by_ident[tuple(c[0])], "files-differs-from-namespace", by_ident[tuple(c[0])], c, w)
            return canon

        abs_paths = [os.path.join(d, wsp.rel_path(ws, ws["defs"][i])) for i in targets]
        c0 = run(abs_paths, all_roots, 0, "read_files:baseline")
        # permuted / duplicated target list, roots spelled differently and permuted, salted hashes
        order = case["order"]
        perm = [abs_paths[(k * (order % 7 + 1) + order) % len(abs_paths)] for k in range(len(abs_paths))]
        perm = perm + [p for p in abs_paths if p not in perm]
        ts = case.get("target_style", 0) % 10
        if ts in (1, 8):
            # the target files, too, may be named in equivalent absolute ways (Path objects, "<link>/.." detours).  Relative target
            # paths are not respelled here: the library reads a relative target as "<root namespace name>/..." under the parent of a
            # root (documented), which is C15's business.
            perm = [os.path.join(str(nu.spell_directory(d, os.path.relpath(os.path.dirname(p), d), ts, os.path.join(d, "links"))), os.path.basename(p)) for p in perm]
        if case["duplicate"]:
            perm = perm + [perm[0]]
        roots_alt = [nu.spell_directory(d, wsp.root_dir(ws, i), case["root_style"] + i, os.path.join(d, "links")) for i in range(len(ws["roots"]))]
        if order % 2:
            roots_alt = list(reversed(roots_alt))
        if case.get("after_failure"):
            _failed_call(ctx)
        ck = case.get("container", 0)
        c1 = run(nu.as_container(perm, ck // 6), nu.as_container(roots_alt, ck), case["salt"], "read_files:variant")
        require(c1 == c0, "files-result-depends-on-call", c0, c1, where)
    finally:
        ctx.cleanup(d)
    classes = ["files"] + (["after-a-failed-call"] if case.get("after_failure") else []) + ["targets:%d" % len(targets), "transitive:%s" % ("0" if not want_trans else ">=1"), "roots:%d" % len(ws["roots"])]
    return Info(bool(want_trans) or len(ws["roots"]) >= 2, classes, sample={"targets": [wsp.rel_path(ws, ws["defs"][i]) for i in targets], "transitive": ids(want_trans)})


def check_files_shared(case: typing.Any, ctx: Ctx) -> Info:
    """Several directories of the same name (in different parents) contribute to one root namespace - read_files allows that -
    and the root namespace is designated by its bare *name*, by paths, or by a mixture; the directories that hold only
    dependencies are then known through the lookup argument."""
    import pydsdl

    ws = case["ws"]
    d = _write(ctx, ws, False)
    try:
        n = len(ws["defs"])
        targets = []
        for t in case["targets"]:
            if t % n not in targets:
                targets.append(t % n)
        name = ws["roots"][0]["name"]
        all_roots = [os.path.join(d, wsp.root_dir(ws, i)) for i in range(len(ws["roots"]))]
        where = "workspace %s targets %s" % (sorted(wsp.rel_path(ws, x) for x in ws["defs"]), [wsp.rel_path(ws, ws["defs"][i]) for i in targets])
        closure = wsp.closure(ws, targets)
        want_direct = nu.expected_order(ws, targets)
        want_trans = nu.expected_order(ws, closure - set(targets))

        def ids(indices: typing.Iterable[int]) -> typing.List[typing.Any]:
            return [(wsp.full_name(ws, ws["defs"][i]), ws["defs"][i]["version"][0], ws["defs"][i]["version"][1]) for i in indices]

        def run(paths: typing.List[typing.Any], roots: typing.Any, lookups: typing.Any, what: str, cwd: str = d) -> typing.Any:
            with nu.cwd(cwd), nu.salted_hashes(case["salt"] if what.endswith("variant") else 0):
                (direct, trans), _ = guarded(pydsdl.read_files, paths, roots, lookups, what=what)
            gd, gt = [wsp.ident(t) for t in direct], [wsp.ident(t) for t in trans]
            w = where + " call paths=%r roots=%r lookups=%r" % (paths, roots, lookups)
            require(gd == ids(want_direct), "files-direct-set:same-name-roots", ids(want_direct), gd, w)
            require(gt == ids(want_trans), "files-transitive-set:same-name-roots", ids(want_trans), gt, w)
            return [nu.canonical(ws, direct, d), nu.canonical(ws, trans, d)]

        abs_paths = [os.path.join(d, wsp.rel_path(ws, ws["defs"][i])) for i in targets]
        c0 = run(abs_paths, all_roots, None, "read_files:same-name-roots:baseline")
        for c, i in zip(c0[0] + c0[1], want_direct + want_trans):
            require(c[1] == wsp.rel_path(ws, ws["defs"][i]) and c[2] == wsp.root_dir(ws, ws["defs"][i]["root"]), "files-source-path:same-name-roots",
                    [wsp.rel_path(ws, ws["defs"][i]), wsp.root_dir(ws, ws["defs"][i]["root"])], c[1:3], where)
        # by name: the directories of the targets are inferred from the target paths; a directory that holds only dependencies has
        # to be named somewhere
        target_roots = {ws["defs"][i]["root"] for i in targets}
        other_roots = sorted({ws["defs"][i]["root"] for i in closure} - target_roots)
        how = case["how"] % 5
        style = case["style"]
        spelled_others = [nu.spell_directory(d, wsp.root_dir(ws, r), style + r, os.path.join(d, "links")) for r in other_roots]
        roots_arg: typing.Any = [name]
        lookups_arg: typing.Any = None
        if how in (0, 3):
            lookups_arg = spelled_others or None
        elif how == 1:
            roots_arg = [name] + spelled_others
        else:
            some = [r for r in sorted(target_roots) if (case["salt"] >> r) & 1]
            roots_arg = [nu.spell_directory(d, wsp.root_dir(ws, r), style + r + 1, os.path.join(d, "links")) for r in some] + [name]
            lookups_arg = spelled_others or None
        if case["salt"] % 3 == 0:
            roots_arg = list(reversed(roots_arg))
        if len(roots_arg) == 1 and case["salt"] % 2:
            roots_arg = roots_arg[0]
        paths = abs_paths if how != 3 else [wsp.rel_path(ws, ws["defs"][i]) for i in targets]
        cwd = d
        if how == 4:
            # the documented relative form "<root namespace>/<nested namespaces>/File" - to be found under the parent of one of
            # the root directories given as paths (the working directory is elsewhere); each target is found where it exists
            paths = [os.path.relpath(p_, os.path.join(d, ws["roots"][ws["defs"][i]["root"]]["parent"])) for p_, i in zip(abs_paths, targets)]
            roots_arg = [nu.spell_directory(d, wsp.root_dir(ws, r), 0 if style % 2 else 1, os.path.join(d, "links")) for r in range(len(ws["roots"]))]
            if case["salt"] % 3 == 0:
                roots_arg = list(reversed(roots_arg))
            lookups_arg = None
            cwd = os.path.join(d, "links")
        order = case["order"]
        paths = [paths[(k + order) % len(paths)] for k in range(len(paths))]
        c1 = run(paths, roots_arg, lookups_arg, "read_files:same-name-roots:variant", cwd)
        require(c1 == c0, "files-result-depends-on-root-designation", c0, c1, where + " roots=%r lookups=%r" % (roots_arg, lookups_arg))
    finally:
        ctx.cleanup(d)
    classes = ["same-name-roots", "how:%d" % how, "target-roots:%d" % len(target_roots), "dependency-only-roots:%d" % len(other_roots), "transitive:%s" % ("0" if not want_trans else ">=1")]
    return Info(len(target_roots) >= 2 or bool(want_trans), classes, sample={"targets": [wsp.rel_path(ws, ws["defs"][i]) for i in targets], "roots": repr(roots_arg), "lookups": repr(lookups_arg)})


def check_mutations(case: typing.Any, ctx: Ctx) -> Info:
    """A namespace tree that changes between reads in one process - definitions appear in directories that exist already (also in
    ones that so far held only sub-namespaces, or nothing), whole sub-namespaces appear, definitions disappear: every read returns
    exactly the definition files that are there *now*."""
    import pydsdl

    ws = copy.deepcopy(case["ws"])
    d = ctx.scratch()
    try:
        wsp.write(ws, d)
        for i in range(len(ws["roots"])):
            for sub in (["hollow"], ["hollow", "inner"], ["sub", "empty"]):
                os.makedirs(os.path.join(d, wsp.root_dir(ws, i), *sub), exist_ok=True)
        live = list(range(len(ws["defs"])))
        roots = [os.path.join(d, wsp.root_dir(ws, i)) for i in range(len(ws["roots"]))]
        log: typing.List[str] = []
        reads = 0
        for step in case["steps"]:
            op = step["op"]
            if op == "add":
                nd = {"root": step["root"] % len(ws["roots"]), "ns": [["hollow"], ["hollow", "inner"], ["sub", "empty"], ["sub"], [], ["fresh%d" % len(log)], ["hollow", "new%d" % len(log), "deep"]][step["where"] % 7],
                      "short": "Added%d" % len(ws["defs"]), "version": [1, step["where"] % 3], "port": None, "service": False, "sealed": True, "size": 1, "deprecated": False, "legacy": bool(step["where"] % 5 == 4), "refs": []}
                ws["defs"].append(nd)
                live.append(len(ws["defs"]) - 1)
                path = os.path.join(d, wsp.rel_path(ws, nd))
                os.makedirs(os.path.dirname(path), exist_ok=True)
                with open(path, "w") as f:
                    f.write(wsp.text_of(ws, len(ws["defs"]) - 1))
                log.append("add " + wsp.rel_path(ws, nd))
            elif op == "remove":
                # only definitions nobody refers to (the rest of the workspace stays valid)
                referenced = {r["to"] for i in live for r in ws["defs"][i]["refs"]}
                cands = [i for i in live if i not in referenced]
                if len(cands) > 1:
                    i = cands[step["where"] % len(cands)]
                    os.remove(os.path.join(d, wsp.rel_path(ws, ws["defs"][i])))
                    live.remove(i)
                    log.append("remove " + wsp.rel_path(ws, ws["defs"][i]))
            else:
                ri = step["root"] % len(roots)
                res, _ = guarded(pydsdl.read_namespace, roots[ri], roots, what="read_namespace:after-mutations")
                want = nu.expected_order(ws, [i for i in live if ws["defs"][i]["root"] == ri])
                want_ids = [(wsp.full_name(ws, ws["defs"][i]), ws["defs"][i]["version"][0], ws["defs"][i]["version"][1]) for i in want]
                got_ids = [wsp.ident(t) for t in res]
                if got_ids != want_ids:
                    missing = [x for x in want_ids if x not in got_ids]
                    raise Violation("namespace-missing:after-mutations" if missing else "namespace-extra:after-mutations", want_ids, got_ids, "read of %s after %s" % (wsp.root_dir(ws, ri), log))
                reads += 1
                log.append("read " + wsp.root_dir(ws, ri))
    finally:
        ctx.cleanup(d)
    mutated_between = any(a.startswith("read") and any(not b.startswith("read") for b in log[i + 1 :]) and any(c.startswith("read") for c in log[i + 1 :]) for i, a in enumerate(log))
    return Info(bool(mutated_between), ["mutations", "reads:%d" % reads, "steps:%d" % len(log)], sample={"log": log})


def check_relink(case: typing.Any, ctx: Ctx) -> Info:
    """Directory arguments that lead through a symbolic link, read several times in one process while the link is re-pointed
    between the calls: each call sees what the path designates *then* - nothing about an earlier resolution may be remembered."""
    import pydsdl

    trees = case["trees"]
    d = ctx.scratch()
    try:
        real = []
        for k, ws in enumerate(trees):
            base = os.path.join(d, "tree%d" % k)
            os.makedirs(base)
            wsp.write(ws, base)
            real.append(base)
        link = os.path.join(d, "current")
        log = []
        for step in case["steps"]:
            k = step["tree"] % len(trees)
            ws = trees[k]
            if os.path.lexists(link):
                os.remove(link)
            os.symlink(real[k], link)
            ri = step["root"] % len(ws["roots"])
            via_link = [os.path.join(link, wsp.root_dir(ws, i)) for i in range(len(ws["roots"]))]
            direct_roots = [os.path.join(real[k], wsp.root_dir(ws, i)) for i in range(len(ws["roots"]))]
            where = "link -> tree%d, step %d of %s (earlier: %s); files %s" % (k, len(log) + 1, case["steps"], log, sorted(wsp.rel_path(ws, x) for x in ws["defs"]))
            if step["api"] % 2 == 0:
                got, _ = guarded(pydsdl.read_namespace, via_link[ri], via_link, what="read_namespace:through-relinked-symlink")
                want, _ = guarded(pydsdl.read_namespace, direct_roots[ri], direct_roots, what="read_namespace:reference")
                canon_got, canon_want = nu.canonical(ws, got, real[k]), nu.canonical(ws, want, real[k])
                _check_namespace_result(ws, ri, got, real[k], where)
            else:
                n = len(ws["defs"])
                targets = sorted({t % n for t in step["targets"]})
                (gd, gt), _ = guarded(pydsdl.read_files, [os.path.join(link, wsp.rel_path(ws, ws["defs"][i])) for i in targets], via_link, what="read_files:through-relinked-symlink")
                (wd, wt), _ = guarded(pydsdl.read_files, [os.path.join(real[k], wsp.rel_path(ws, ws["defs"][i])) for i in targets], direct_roots, what="read_files:reference")
                canon_got, canon_want = [nu.canonical(ws, gd, real[k]), nu.canonical(ws, gt, real[k])], [nu.canonical(ws, wd, real[k]), nu.canonical(ws, wt, real[k])]
            require(canon_got == canon_want, "result-depends-on-earlier-resolution-of-a-link", canon_want, canon_got, where)
            log.append("tree%d" % k)
    finally:
        ctx.cleanup(d)
    switched = len(set(log)) >= 2
    return Info(switched, ["relink", "steps:%d" % len(log), "switched" if switched else "one-tree"], sample={"steps": case["steps"], "trees": [sorted(wsp.rel_path(w, x) for x in w["defs"]) for w in trees]})


DIR_POOL = ["p0/ns", "p0/ns/sub", "p0/ns/sub/deeper", "p1/ns", "p1/NS", "p1/other", "p2/Other", "p2/nsx", "p3/ns/x/ns", "p2/ns", "p0/nsub", "p0/ns/s",
            # siblings whose names merely *start* like another directory's; as lookup directories only (they are no valid namespace
            # names, which matters only for a namespace that is actually read)
            "p0/ns-backup", "p0/ns (copy)", "p0/ns+", "p0/ns!old", "p1/other-2"]
N_ROOT_CAPABLE = 12


def check_dirsets(case: typing.Any, ctx: Ctx) -> Info:
    import pydsdl

    d = ctx.scratch()
    try:
        for rel in DIR_POOL:
            os.makedirs(os.path.join(d, rel), exist_ok=True)
            with open(os.path.join(d, rel, "T%d.1.0.dsdl" % DIR_POOL.index(rel)), "w") as f:
                f.write("@sealed\n")
        os.makedirs(os.path.join(d, "links"), exist_ok=True)
        root_rel = DIR_POOL[case["root"] % N_ROOT_CAPABLE]
        lookup_rels = [DIR_POOL[i % len(DIR_POOL)] for i in case["lookups"]]
        chosen = {root_rel} | set(lookup_rels)

        def inside(a: str, b: str) -> bool:
            return a != b and (a + "/").startswith(b + "/")

        nested = any(inside(a, b) for a in chosen for b in chosen)
        collide = any(a != b and a.split("/")[-1].lower() == b.split("/")[-1].lower() for a in chosen for b in chosen)
        allow = case["allow"]
        expect_error = nested or (collide and not allow)
        root_arg = nu.spell_directory(d, root_rel, case["style"], os.path.join(d, "links"))
        lookups = [nu.spell_directory(d, r, case["style"] + k + 1, os.path.join(d, "links")) for k, r in enumerate(lookup_rels)]
        where = "root %r lookups %r allow_collision=%s" % (root_rel, lookup_rels, allow)
        with nu.cwd(d), nu.salted_hashes(case["salt"]):
            res, ex = guarded(
                pydsdl.read_namespace, root_arg, lookups, None, False, allow, allowed=(pydsdl.InvalidDefinitionError,), what="read_namespace:dirset"
            )
        if expect_error:
            require(ex is not None, "directory-set-accepted:" + ("nested" if nested else "name-collision"), "InvalidDefinitionError", "accepted", where)
        else:
            require(ex is None, "directory-set-rejected", "accepted", "%s: %s" % (type(ex).__name__, ex), where)
            want = ["%s.T%d" % (root_rel.split("/")[-1], DIR_POOL.index(r)) for r in DIR_POOL if r == root_rel or inside(r, root_rel)]
            got = sorted(t.full_name.split(".")[0] + "." + t.short_name for t in res)
            require(got == sorted(want), "dirset-result", sorted(want), got, where)
    finally:
        ctx.cleanup(d)
    return Info(True, ["dirset", "nested" if nested else "flat", "collide" if collide else "distinct-names", "allow" if allow else "disallow"], sample=where)


CHILD = r"""
import json, os, sys
sys.path[:0] = [%(repo)r, %(verif)r]
import logging; logging.disable(logging.CRITICAL)
import pydsdl
from vf.gen import workspace as wsp
from vf.props import _nsutil as nu
spec = json.load(open(sys.argv[1]))
ws, d = spec["ws"], spec["dir"]
out = []
roots = [os.path.join(d, wsp.root_dir(ws, i)) for i in range(len(ws["roots"]))]
for i in range(len(roots)):
    out.append(nu.canonical(ws, pydsdl.read_namespace(roots[i], roots), d))
for targets in spec["target_sets"]:
    paths = [os.path.join(d, wsp.rel_path(ws, ws["defs"][t])) for t in targets]
    direct, trans = pydsdl.read_files(paths, roots)
    out.append([nu.canonical(ws, direct, d), nu.canonical(ws, trans, d)])
print(json.dumps(out))
"""


def check_hashseeds(case: typing.Any, ctx: Ctx) -> Info:
    ws = case["ws"]
    d = _write(ctx, ws, False)
    try:
        n = len(ws["defs"])
        target_sets = [sorted({t % n for t in ts}) for ts in case["target_sets"]]
        spec_path = os.path.join(d, "spec.json")
        with open(spec_path, "w") as f:
            json.dump({"ws": ws, "dir": d, "target_sets": target_sets}, f)
        script = os.path.join(d, "child.py")
        verif = os.path.dirname(os.path.dirname(os.path.dirname(os.path.abspath(__file__))))
        with open(script, "w") as f:
            f.write(CHILD % {"repo": ctx.repo, "verif": verif})
        seeds = [0, 1, 2, 3] + list(case["seeds"])
        if ctx.tier == "thorough":
            seeds += list(range(4, 24))
        results = {}
        for s in seeds:
            env = dict(os.environ, PYTHONHASHSEED=str(s))
            env["PYTHONPATH"] = os.pathsep.join([ctx.repo, os.path.join(verif, ".deps"), verif])
            p = subprocess.run([sys.executable, script, spec_path], env=env, capture_output=True, text=True, timeout=300)
            if p.returncode != 0:
                tail = p.stderr.strip().splitlines()[-1] if p.stderr.strip() else ""
                if "pydsdl" in p.stderr and "Error" in tail:
                    raise Violation("hashseed-child-failed", "result", tail[:300], "PYTHONHASHSEED=%d workspace %s" % (s, sorted(wsp.rel_path(ws, x) for x in ws["defs"])))
                raise HarnessError("child failed: %s" % p.stderr[-2000:])
            results[s] = json.loads(p.stdout)
        ref = results[seeds[0]]
        for s in seeds[1:]:
            if results[s] != ref:
                raise Violation("result-depends-on-hash-seed", ref, results[s], "PYTHONHASHSEED=%d vs %d workspace %s" % (s, seeds[0], sorted(wsp.rel_path(ws, x) for x in ws["defs"])))
        ctx.extra["child_processes"] = ctx.extra.get("child_processes", 0) + len(seeds)
    finally:
        ctx.cleanup(d)
    return Info(True, ["hashseed", "seeds:%d" % len(seeds), "defs:%d" % len(ws["defs"])], sample={"files": sorted(wsp.rel_path(ws, x) for x in ws["defs"]), "seeds": seeds})


def parts(ctx: Ctx) -> typing.List[Part]:
    ws = wsp.definitions(max_defs=8, roots=3)
    ns_cases = st.fixed_dictionaries(
        {
            "ws": ws,
            "target_root": st.integers(0, 3),
            "lookups": st.lists(st.fixed_dictionaries({"root": st.integers(0, 3), "style": st.integers(0, 9)}), max_size=4),
            "root_style": st.integers(0, 9),
            "single_lookup_as_scalar": st.booleans(),
            "container": st.integers(0, 5),
            "salt": st.one_of(st.just(0), st.integers(1, 2**31)),
            "rglob_seed": st.integers(0, 2**20),
            "extra_files": st.booleans(),
        }
    )
    file_cases = st.fixed_dictionaries(
        {
            "ws": ws,
            "targets": st.lists(st.integers(0, 30), min_size=1, max_size=5),
            "order": st.integers(0, 1000),
            "duplicate": st.booleans(),
            "after_failure": st.booleans(),
            "container": st.integers(0, 35),
            "root_style": st.integers(0, 9),
            "target_style": st.integers(0, 9),
            "salt": st.integers(1, 2**31),
            "rglob_seed": st.integers(0, 2**20),
        }
    )
    dir_cases = st.fixed_dictionaries(
        {
            "root": st.integers(0, len(DIR_POOL) - 1),
            "lookups": st.lists(st.integers(0, len(DIR_POOL) - 1), max_size=4),
            "allow": st.booleans(),
            "style": st.integers(0, 9),
            "salt": st.integers(0, 2**31),
        }
    )
    seed_cases = st.fixed_dictionaries(
        {
            "ws": ws,
            "target_sets": st.lists(st.lists(st.integers(0, 30), min_size=1, max_size=4), min_size=1, max_size=2),
            "seeds": st.lists(st.integers(4, 2**31 - 1), min_size=1, max_size=1),
        }
    )
    shared_cases = st.fixed_dictionaries(
        {
            "ws": wsp.definitions(max_defs=8, roots=3, same_name=True, min_defs=2),
            "targets": st.lists(st.integers(0, 30), min_size=1, max_size=5),
            "how": st.integers(0, 4),
            "style": st.integers(0, 9),
            "order": st.integers(0, 7),
            "salt": st.integers(1, 2**31),
        }
    )
    relink_cases = st.fixed_dictionaries(
        {
            "trees": st.lists(wsp.definitions(max_defs=5, roots=2, shorts=["A", "B", "Msg"], subs=["sub"]), min_size=2, max_size=3),
            "steps": st.lists(st.fixed_dictionaries({"tree": st.integers(0, 2), "root": st.integers(0, 2), "api": st.integers(0, 1), "targets": st.lists(st.integers(0, 9), min_size=1, max_size=3)}), min_size=2, max_size=4),
        }
    )
    mutation_cases = st.fixed_dictionaries(
        {
            "ws": wsp.definitions(max_defs=5, roots=2, shorts=["A", "B", "Msg"], subs=["sub", "hollow"]),
            "steps": st.lists(st.fixed_dictionaries({"op": st.sampled_from(["read", "read", "add", "add", "remove"]), "root": st.integers(0, 2), "where": st.integers(0, 20)}), min_size=3, max_size=7),
        }
    )
    return [
        Part("namespace", ns_cases, check_namespace, weight=4, cost=1.0),
        Part("relink", relink_cases, check_relink, weight=1, cost=2.0),
        Part("mutations", mutation_cases, check_mutations, weight=1, cost=2.0),
        Part("files", file_cases, check_files, weight=3, cost=1.5),
        Part("files-same-name", shared_cases, check_files_shared, weight=2, cost=1.0),
        Part("dirsets", dir_cases, check_dirsets, weight=2, cost=0.7),
        Part("hashseeds", seed_cases, check_hashseeds, weight=1, cost=6.0, min_examples=4),
    ]
