"""C11 - port-ID and minor-version consistency rules hold for every set of definitions."""
from __future__ import annotations

import os
import typing

from hypothesis import strategies as st

from ..core import Info, Part, Ctx, Violation, HarnessError, require, guarded

ID = "C11"
TITLE = "Port-ID and minor-version consistency rules hold for every set of definitions"
RULE = (
    "(Sections are structures or unions, with or without doc comments; names may lie in a nested namespace called like a service - vendor/A/Request.1.0.dsdl next to vendor/A.1.0.dsdl.)  "
    "Cases are sets of 2..8 individually valid definitions over <= 3 names in a vendor root namespace: versions (major 0..2, minor 0..3), "
    "kind (message / service), fixed port-ID absent or one of two values per kind (regulated ones, or 0 and another unregulated one with the allow flag), sealed vs delimited, two extents, for "
    "services independently for request and response; in a second part the (port-less, message) definitions live in a lookup namespace "
    "and a target references both, one or none of each pair.  Oracle: an independent implementation of the statement over tuples - "
    "same-kind port-ID collisions unless same name and (same major or a major of 0); per (name, major): same kind, port-ID equal or "
    "added by the newer minor only, and for major >= 1 equal extent and sealing (request and response separately) - applied to the "
    "target definitions (both rule groups) and to the definitions the targets reference (minor-version group): accepted <=> conforming, "
    "every rejection is an InvalidDefinitionError.  A third part keeps everything in one root namespace (or splits that root over a target and a lookup directory with the collision flag) "
    "and makes only some definitions targets, the others being reached through `@assert vendor.X.1.0.K == 1` references or not at all: the verdict is computed over targets + the referenced closure, "
    "so a newer minor can be a target while the older one is only a dependency and vice versa.  Non-trivial = >= 2 definitions sharing a name or a port-ID (parts 1-2), a target and a dependency sharing name and major (part 3)."
)
ASSUMPTIONS = [
    "fixed port-ID collisions that involve a definition outside the target namespace are not asserted either way (the reader documents that it checks the read namespace only)",
]
BUDGET = {"quick": 1000, "thorough": 20000}
# coverage-guided twins (thorough tier): part name -> executions per shard; see core.cover
COVER = {"target": 2000}

PORTS = {False: [6200, 6201], True: [300, 301]}
UNREGULATED_PORTS = {False: [0, 7], True: [0, 5]}  # used with allow_unregulated_fixed_port_id=True (0 is a valid port-ID)


def def_text(d: typing.Any, extra: typing.Sequence[str] = ()) -> str:
    # what a section looks like inside (structure or union, documented or not) is irrelevant to the cross-definition rules
    def section(sealed: bool, size: int, union: bool) -> typing.List[str]:
        head = ["@union"] if union else []
        other = ["uint8 other_variant"] if union else []
        if sealed:
            return head + ["uint8[%d] payload" % size] + other + ["@sealed"]
        return head + ["uint8 payload"] + other + ["@extent %d" % (64 * size)]

    first = section(d["sealed"], d["size"], bool(d.get("union")))
    k = 1 if d.get("union") else 0  # extra statements (constants, assertions) go after a leading @union
    lines = (["# a doc comment"] if d.get("doc") else []) + first[:k] + list(extra) + first[k:]
    if d["service"]:
        lines += ["---"] + section(d["rsealed"], d["rsize"], bool(d.get("runion")))
    return "\n".join(lines) + "\n"


def file_name(d: typing.Any, unregulated: bool = False) -> str:
    """Path relative to the root namespace directory; a name may lie in a nested namespace ("A/Request": vendor/A/Request.1.0.dsdl
    next to vendor/A.1.0.dsdl - a namespace may share its name with a type, and `Request` / `Response` are ordinary short names)."""
    port = "" if d["port"] is None else "%d." % (UNREGULATED_PORTS if unregulated else PORTS)[d["service"]][d["port"]]
    head, _, short = d["name"].rpartition("/")
    return (head + "/" if head else "") + "%s%s.%d.%d.dsdl" % (port, short, d["version"][0], d["version"][1])


def dotted(d: typing.Any) -> str:
    return d["name"].replace("/", ".")


def _write_def(root: str, rel: str, text: str) -> str:
    path = os.path.join(root, rel)
    os.makedirs(os.path.dirname(path), exist_ok=True)
    with open(path, "w") as f:
        f.write(text)
    return path


def layout_of(d: typing.Any) -> typing.Any:
    """(sealed, extent) for the message / request, and for the response of a service."""
    def one(sealed: bool, size: int, union: bool) -> typing.Tuple[bool, int]:
        return (True, 8 * size + (8 if union else 0)) if sealed else (False, 64 * size)

    return [one(d["sealed"], d["size"], bool(d.get("union")))] + ([one(d["rsealed"], d["rsize"], bool(d.get("runion")))] if d["service"] else [])


def port_conflict(a: typing.Any, b: typing.Any) -> bool:
    if a["service"] != b["service"] or a["port"] is None or b["port"] is None or a["port"] != b["port"]:
        return False
    same_name = a["name"] == b["name"]
    if same_name and (a["version"][0] == b["version"][0] or a["version"][0] == 0 or b["version"][0] == 0):
        return False
    return True


def minor_conflict(a: typing.Any, b: typing.Any) -> typing.Optional[str]:
    if a["name"] != b["name"] or a["version"][0] != b["version"][0] or a["version"][1] == b["version"][1]:
        return None
    if a["service"] != b["service"]:
        return "kind"
    if a["port"] is not None and b["port"] is not None:
        if a["port"] != b["port"]:
            return "port-changed"
    elif (a["port"] is None) != (b["port"] is None):
        newer = a if a["version"][1] > b["version"][1] else b
        if newer["port"] is None:
            return "port-removed"
    if a["version"][0] >= 1:
        la, lb = layout_of(a), layout_of(b)
        for (sa, ea), (sb, eb) in zip(la, lb):
            if ea != eb:
                return "extent"
            if sa != sb:
                return "sealing"
    return None


def verdict(target_defs: typing.List[typing.Any], referenced: typing.List[typing.Any]) -> typing.Optional[str]:
    for i, a in enumerate(target_defs):
        for b in target_defs[i + 1 :]:
            if port_conflict(a, b):
                return "port-collision"
    scope = target_defs + referenced
    for i, a in enumerate(scope):
        for b in scope[i + 1 :]:
            m = minor_conflict(a, b)
            if m:
                return "minor:" + m
    return None


def _dedupe(defs: typing.List[typing.Any]) -> typing.List[typing.Any]:
    out, seen = [], set()
    for d in defs:
        key = (d["name"], tuple(d["version"]))
        if key in seen or tuple(d["version"]) == (0, 0):
            continue
        seen.add(key)
        out.append(d)
    return out


def check_target(case: typing.Any, ctx: Ctx) -> Info:
    import pydsdl

    defs = _dedupe(case["defs"])
    v = verdict(defs, [])
    d = ctx.scratch()
    try:
        root = os.path.join(d, "vendor")
        os.makedirs(root)
        unreg = bool(case.get("unregulated"))
        for x in defs:
            _write_def(root, file_name(x, unreg), def_text(x))
        res, ex = guarded(pydsdl.read_namespace, root, [], None, unreg, allowed=(pydsdl.InvalidDefinitionError,), what="read_namespace")
        written = {os.path.realpath(os.path.join(root, file_name(x, unreg))) for x in defs}
        error_path_ok = ex is None or (ex.path is not None and os.path.realpath(str(ex.path)) in written)
        # "for every set of definitions" includes the set that the same files hold a moment later: some definitions are edited in place
        # (sealing, extent, union-ness of a section - the file names stay) and the namespace is read again in the same process; the
        # verdict must be that of the set as it is now, whatever was found out about these files before
        edits = case.get("reread") or []
        if edits and defs:
            defs2 = [dict(x) for x in defs]
            for idx, key, value in edits:
                x2 = defs2[idx % len(defs2)]
                if key in ("rsealed", "rsize", "runion") and not x2["service"]:
                    key = key[1:]
                x2[key] = [1, 2, 8][int(value) % 3] if key.endswith("size") else bool(int(value) % 2)
            v2 = verdict(defs2, [])
            for x1, x2 in zip(defs, defs2):
                if x1 != x2:
                    _write_def(root, file_name(x2, unreg), def_text(x2))
            res2, ex2 = guarded(pydsdl.read_namespace, root, [], None, unreg, allowed=(pydsdl.InvalidDefinitionError,), what="read_namespace:after-edit")
            where2 = "after editing in place: " + ", ".join(file_name(x, unreg) + ("{%s}" % def_text(x).replace("\n", ";")) for x in defs2) + " | before: " + ", ".join(def_text(x).replace("\n", ";") for x in defs)
            if v2 is None:
                require(ex2 is None, "conforming-set-rejected:after-edit", "accepted", "%s: %s" % (type(ex2).__name__, ex2), where2)
                require(len(res2) == len(defs2), "conforming-set-size:after-edit", len(defs2), len(res2), where2)
            else:
                require(ex2 is not None, "violating-set-accepted:after-edit:" + v2, "InvalidDefinitionError (%s)" % v2, "accepted", where2)
    finally:
        ctx.cleanup(d)
    where = ("unregulated ports allowed: " if unreg else "") + ", ".join(file_name(x, unreg) + ("{%s}" % def_text(x).replace("\n", ";")) for x in defs)
    if v is None:
        require(ex is None, "conforming-set-rejected", "accepted", "%s: %s" % (type(ex).__name__, ex), where)
        require(len(res) == len(defs), "conforming-set-size", len(defs), len(res), where)
    else:
        require(ex is not None, "violating-set-accepted:" + v, "InvalidDefinitionError (%s)" % v, "accepted", where)
        # the rejection names one of the definitions of the set (which of the conflicting ones is not prescribed)
        require(error_path_ok, "cross-definition-error-without-a-definition-path", "path of one of the definitions", str(ex.path), where + "\n" + str(ex))
    names = [x["name"] for x in defs]
    ports = [(x["service"], x["port"]) for x in defs if x["port"] is not None]
    shared = len(set(names)) < len(names) or len(set(ports)) < len(ports)
    return Info(shared, ["target", "verdict:" + (v or "ok"), "defs:%d" % len(defs)] + (["unregulated-ports"] if unreg else []), sample=where)


def check_lookup(case: typing.Any, ctx: Ctx) -> Info:
    import pydsdl

    lk = [dict(x, service=False, port=None) for x in _dedupe(case["defs"])]
    refs = sorted({r % len(lk) for r in case["refs"]}) if lk else []
    referenced = [lk[i] for i in refs]
    target = {"name": "T", "version": [1, 0], "service": False, "port": None, "sealed": True, "size": 1}
    v = verdict([target], referenced)
    d = ctx.scratch()
    try:
        root = os.path.join(d, "vendor")
        lroot = os.path.join(d, "lk")
        os.makedirs(root)
        os.makedirs(lroot)
        for x in lk:
            _write_def(lroot, file_name(x), def_text(x))
        lines = ["lk.%s.%d.%d r%d" % (dotted(x), x["version"][0], x["version"][1], i) for i, x in enumerate(referenced)] + ["@sealed"]
        with open(os.path.join(root, "T.1.0.dsdl"), "w") as f:
            f.write("\n".join(lines) + "\n")
        if case["api"] == "files":
            res, ex = guarded(pydsdl.read_files, [os.path.join(root, "T.1.0.dsdl")], [root], [lroot], allowed=(pydsdl.InvalidDefinitionError,), what="read_files")
        else:
            res, ex = guarded(pydsdl.read_namespace, root, [lroot], allowed=(pydsdl.InvalidDefinitionError,), what="read_namespace")
    finally:
        ctx.cleanup(d)
    where = "lookup: %s; referenced: %s" % (", ".join(file_name(x) + "{%s}" % def_text(x).replace("\n", ";") for x in lk), [file_name(x) for x in referenced])
    if v is None:
        require(ex is None, "conforming-set-rejected:lookup", "accepted", "%s: %s" % (type(ex).__name__, ex), where)
    else:
        require(ex is not None, "violating-set-accepted:lookup:" + v, "InvalidDefinitionError (%s)" % v, "accepted", where)
    unref_conflict = verdict([], lk) is not None and v is None
    classes = ["lookup", "verdict:" + (v or "ok"), "api:" + case["api"]] + (["conflict-outside-closure"] if unref_conflict else [])
    return Info(len(referenced) >= 2 or unref_conflict, classes, sample=where)


def check_partial(case: typing.Any, ctx: Ctx) -> Info:
    """One root namespace, only some definitions are targets; the others are reached through references (or not at all)."""
    import pydsdl

    defs = _dedupe(case["defs"])
    if not defs:
        return Info(False, ["partial", "empty"])
    # references: definition i may name message definitions j < i (acyclic by construction); a constant is read, so layouts stay as modelled
    refs: typing.Dict[int, typing.List[int]] = {}
    for k, (i, j) in enumerate(case["edges"]):
        if len(defs) < 2:
            break
        i, j = i % len(defs), j % len(defs)
        if i == j:
            continue
        i, j = max(i, j), min(i, j)
        if not defs[j]["service"] and j not in refs.setdefault(i, []):
            refs[i].append(j)
    targets = sorted({t % len(defs) for t in case["targets"]}) or [len(defs) - 1]
    # constructed rather than hoped for: one minor of a (name, major) is a target, another one is only a dependency of a user type
    pairs = [(a, b) for a in range(len(defs)) for b in range(len(defs)) if a != b and defs[a]["name"] == defs[b]["name"]
             and defs[a]["version"][0] == defs[b]["version"][0] and not defs[b]["service"]]
    if pairs and case.get("force") is not None:
        a, b = pairs[case["force"] % len(pairs)]
        defs = defs + [{"name": "U", "version": [1, 0], "service": False, "port": None, "sealed": True, "size": 1}]
        refs.setdefault(len(defs) - 1, []).append(b)
        targets = sorted((set(targets) - {b}) | {a, len(defs) - 1})
    # ... or a whole family (one name, one major, several minors) split in a drawn way between targets and definitions that are
    # only reached through a reference - e.g. 1.1 and 1.3 read directly, 1.2 between them only as a dependency
    if case.get("split") is not None:
        families: typing.Dict[typing.Any, typing.List[int]] = {}
        for i, x in enumerate(defs):
            if x["name"] != "U":
                families.setdefault((x["name"], x["version"][0]), []).append(i)
        big = sorted((k for k, v in families.items() if len(v) >= 3), key=str) or sorted((k for k, v in families.items() if len(v) >= 2), key=str)
        if big:
            members = sorted(families[big[case["split"] % len(big)]], key=lambda i: defs[i]["version"][1])
            mask = case["split"] // 7 % (2 ** len(members) - 2) + 1  # a non-empty proper subset becomes dependency-only
            if len(members) >= 3 and case["split"] % 3 == 0 and not any(defs[m]["service"] for m in members):
                # the port-ID rule is the one rule that is not transitive along the minors (a port may appear, never disappear):
                # oldest and newest minor carry the same port-ID, the ones between them none, and exactly those are dependency-only
                defs = [dict(x) for x in defs]
                for b, m in enumerate(members):
                    defs[m]["port"] = 0 if b in (0, len(members) - 1) else None
                mask = (2 ** (len(members) - 1) - 1) & ~1
            dep_only = [m for b, m in enumerate(members) if (mask >> b) & 1 and not defs[m]["service"]]
            if dep_only and len(dep_only) < len(members):
                defs = defs + [{"name": "U", "version": [1, 1], "service": False, "port": None, "sealed": True, "size": 1}]
                u = len(defs) - 1
                for m in dep_only:
                    refs.setdefault(u, []).append(m)
                targets = sorted((set(targets) - set(dep_only)) | (set(members) - set(dep_only)) | {u})
    closure = set(targets)
    todo = list(targets)
    while todo:
        for j in refs.get(todo.pop(), []):
            if j not in closure:
                closure.add(j)
                todo.append(j)
    target_defs = [defs[i] for i in targets]
    referenced = [defs[i] for i in sorted(closure - set(targets))]
    v = verdict(target_defs, referenced)
    # a port-ID collision that involves a definition outside the targets is not asserted either way (see ASSUMPTIONS)
    outside_port_conflict = v is None and any(port_conflict(a, b) for a in referenced for b in target_defs + referenced if a is not b)
    split = case["api"] == "split"
    d = ctx.scratch()
    try:
        troot = os.path.join(d, "t", "vendor")
        lroot = os.path.join(d, "l", "vendor") if split else troot
        os.makedirs(troot)
        os.makedirs(lroot, exist_ok=True)
        paths = []
        for i, x in enumerate(defs):
            lines = ["uint8 K = 1"] + ["@assert vendor.%s.%d.%d.K == 1" % (dotted(defs[j]), defs[j]["version"][0], defs[j]["version"][1]) for j in refs.get(i, [])]
            where_dir = troot if (i in targets or not split) else lroot
            paths.append(_write_def(where_dir, file_name(x), def_text(x, lines)))
        if split:
            res, ex = guarded(pydsdl.read_namespace, troot, [lroot], None, False, True, allowed=(pydsdl.InvalidDefinitionError,), what="read_namespace:split-root")
        else:
            tp = [paths[i] for i in targets]
            if case["reverse"]:
                tp.reverse()
            res, ex = guarded(pydsdl.read_files, tp, [troot], [], allowed=(pydsdl.InvalidDefinitionError,), what="read_files:partial")
    finally:
        ctx.cleanup(d)
    where = "api %s; targets %s; referenced %s; edges %s; all: %s" % (
        case["api"], [file_name(x) for x in target_defs], [file_name(x) for x in referenced],
        sorted((file_name(defs[i]), [file_name(defs[j]) for j in js]) for i, js in refs.items()),
        ", ".join(file_name(x) + "{%s}" % def_text(x).replace("\n", ";") for x in defs))
    if v is None:
        if not outside_port_conflict:
            require(ex is None, "conforming-set-rejected:partial", "accepted", "%s: %s" % (type(ex).__name__, ex), where)
    else:
        require(ex is not None, "violating-set-accepted:partial:" + v, "InvalidDefinitionError (%s)" % v, "accepted", where)
    mixed = any(minor_conflict(a, b) is not None or (a["name"] == b["name"] and a["version"][0] == b["version"][0]) for a in target_defs for b in referenced)
    classes = ["partial", "verdict:" + (v or "ok"), "api:" + case["api"]] + (["same-major-target-and-dependency"] if mixed else []) + (["port-conflict-outside-targets"] if outside_port_conflict else [])
    return Info(mixed, classes, sample=where)


def _defs(names: typing.List[str]) -> st.SearchStrategy:
    one = st.fixed_dictionaries(
        {
            "name": st.sampled_from(names),
            "version": st.tuples(st.sampled_from([0, 1, 1, 2]), st.integers(0, 3)).map(list),
            "service": st.sampled_from([False, False, True]),
            "port": st.sampled_from([None, None, 0, 0, 1]),
            "sealed": st.booleans(),
            "size": st.sampled_from([1, 1, 2, 8]),
            "rsealed": st.booleans(),
            "rsize": st.sampled_from([1, 1, 2, 8]),
            "union": st.sampled_from([False, False, True]),
            "runion": st.sampled_from([False, False, True]),
            "doc": st.booleans(),
        }
    )
    return st.lists(one, min_size=2, max_size=8)


def parts(ctx: Ctx) -> typing.List[Part]:
    target_cases = st.fixed_dictionaries({"defs": st.one_of(_defs(["A"]), _defs(["A", "B"]), _defs(["A", "B", "C"]), _defs(["A", "A/Request"]), _defs(["A", "A/Response", "A/Request", "B"])), "unregulated": st.sampled_from([False, False, True]),
                                          "reread": st.one_of(st.none(), st.lists(st.tuples(st.integers(0, 7), st.sampled_from(["sealed", "rsealed", "size", "rsize", "union", "runion"]), st.integers(0, 5)).map(list), min_size=1, max_size=2))})
    lookup_cases = st.fixed_dictionaries(
        {"defs": st.one_of(_defs(["A"]), _defs(["A", "B"]), _defs(["A", "A/Response"])), "refs": st.lists(st.integers(0, 20), max_size=4), "api": st.sampled_from(["namespace", "files"])}
    )
    partial_cases = st.fixed_dictionaries(
        {
            "defs": st.one_of(_defs(["A"]), _defs(["A", "B"]), _defs(["A", "A/Request"])),
            "edges": st.lists(st.tuples(st.integers(0, 7), st.integers(0, 7)), min_size=1, max_size=6),
            "targets": st.lists(st.integers(0, 7), min_size=1, max_size=4),
            "api": st.sampled_from(["files", "files", "split"]),
            "reverse": st.booleans(),
            "force": st.one_of(st.none(), st.integers(0, 30), st.integers(0, 30)),
            "split": st.one_of(st.none(), st.integers(0, 2000)),
        }
    )
    return [Part("target", target_cases, check_target, weight=3), Part("lookup", lookup_cases, check_lookup, weight=1), Part("partial", partial_cases, check_partial, weight=2)]
