"""C02 - every type's layout (lengths, alignment, extent, prefixes) is the Specification's."""
from __future__ import annotations

import typing

from hypothesis import strategies as st

from ..core import Info, Part, Ctx, Violation, HarnessError, require, guarded
from ..gen import types as gt
from ..gen.materialize import ApiBuilder, TextBuilder
from ..ref import bls as rbls
from ..ref import layout
from . import c01

ID = "C02"
TITLE = "Every type's layout (lengths, alignment, extent, prefixes) is the Specification"
RULE = (
    "Cases are type specs (primitives of every width, void, fixed/variable arrays, structs with padding, unions, delimited composites; "
    "recursive, <= 10 leaves) materialised through the public constructors (capacities incl. 2**8/16/32/63 boundaries) and through DSDL "
    "text read with read_namespace (small capacities); plus an enumerated grid of prefix/tag boundaries and drawn admissible / "
    "inadmissible extents.  Oracle: the Specification's layout as set expressions evaluated by the independent models of vf.ref.bls "
    "(explicit set when <= 5000 elements, else min/max/residues mod 8,16,32,64) + alignment/extent/prefix/tag/header widths + the "
    "universal invariants of the statement.  Non-trivial = nesting depth >= 2, or a sub-byte member followed by a byte-aligned one, or a "
    "capacity / variant count within 1 of a prefix boundary."
)
ASSUMPTIONS = [
    "capacities above ~5000 elements are checked symbolically (min, max, residues), not by enumeration",
    "variant counts 65536/65537 are explored in the thorough tier only",
]
BUDGET = {"quick": 700, "thorough": 14000}
# coverage-guided twins (thorough tier): part name -> executions per shard; see core.cover
COVER = {"api": 4000, "text": 1500}

BOUNDARIES = (2**8, 2**16, 2**32)


def _near_boundary(n: int) -> bool:
    return any(abs(n - b) <= 1 for b in BOUNDARIES)


def _classify(spec: typing.Any) -> typing.Tuple[bool, typing.List[str]]:
    d = layout.depth(spec)
    classes = ["depth:%d" % min(d, 4), "top:" + spec[0]]
    subbyte_then_aligned = False
    boundary = False
    for s in layout.walk(spec):
        if s[0] in ("fixed", "var"):
            if _near_boundary(s[2]):
                boundary = True
            if s[2] >= 2**32:
                classes.append("capacity>=2^32")
        if s[0] in ("struct",):
            off_unaligned = False
            for _, t in s[1]:
                if layout.alignment(t) == 8 and off_unaligned:
                    subbyte_then_aligned = True
                tr = layout.tree(t)
                if layout.alignment(t) == 1:
                    try:
                        off_unaligned = off_unaligned or rbls.residues(tr, 8) != frozenset({0})
                    except rbls.TooBig:
                        off_unaligned = True
                else:
                    off_unaligned = False
        if s[0] == "union" and _near_boundary(len(s[1])):
            boundary = True
        if s[0] == "delim":
            classes.append("has-delimited")
    if subbyte_then_aligned:
        classes.append("padding-exercised")
    if boundary:
        classes.append("prefix-boundary")
    return d >= 2 or subbyte_then_aligned or boundary, sorted(set(classes))


def check_type_object(t: typing.Any, spec: typing.Any, counters: typing.Dict[str, int], exhaustive: bool = True) -> None:
    """Compare one pydsdl type object with the Specification's layout of `spec`."""
    import pydsdl

    name = layout.type_string(spec)[:200]
    tree = layout.tree(spec)
    oracle = c01.Oracle(tree, counters, cost_limit=40_000)
    b, _ = guarded(lambda: t.bit_length_set, what="bit_length_set")
    a, _ = guarded(lambda: t.alignment_requirement, what="alignment_requirement")
    require(a == layout.alignment(spec), "alignment_requirement", layout.alignment(spec), a, name)
    for q in (["min"], ["max"], ["fixed"], ["mod", 8], ["mod", 16], ["mod", 32], ["mod", 64], ["albyte"]):
        c01.run_query(b, oracle, q, counters, tag=":layout")
    # every possible length is a multiple of the type's alignment
    c01.run_query(b, oracle, ["al", layout.alignment(spec)], counters, tag=":layout")
    if oracle.mod_tractable(layout.alignment(spec)):
        got, _ = guarded(lambda: b.is_aligned_at(a), what="is_aligned_at")
        require(got is True, "length-not-multiple-of-alignment", True, got, name)
    ex = oracle.explicit()
    if exhaustive and ex is not None and len(ex) <= 3000:
        c01.run_query(b, oracle, ["iter"], counters, tag=":layout")
    k = spec[0]
    if k == "var":
        w, _ = guarded(lambda: t.length_field_type.bit_length, what="length_field_type")
        require(w == layout.prefix_width(spec[2]), "length-prefix-width", layout.prefix_width(spec[2]), w, name)
        require(isinstance(t.length_field_type, pydsdl.UnsignedIntegerType), "length-prefix-type", "unsigned", repr(t.length_field_type))
    if k in ("struct", "union", "delim"):
        e, _ = guarded(lambda: t.extent, what="extent")
        require(e == layout.extent(spec), "extent", layout.extent(spec), e, name)
        require(a == 8 and e % 8 == 0, "composite-not-byte-aligned", "alignment 8, extent % 8 == 0", (a, e), name)
        if k != "delim":
            require(e == b.max, "sealed-extent-is-max", b.max, e, name)
    if k == "union":
        w, _ = guarded(lambda: t.tag_field_type.bit_length, what="tag_field_type")
        require(w == layout.tag_width(len(spec[1])), "union-tag-width", layout.tag_width(len(spec[1])), w, name)
    if k == "delim":
        w, _ = guarded(lambda: t.delimiter_header_type.bit_length, what="delimiter_header_type")
        require(w == 32, "delimiter-header-width", 32, w, name)
        # header + {0, 8, ..., extent} irrespective of the fields
        require(b.min == 32 and b.max == 32 + e, "delimited-set-bounds", (32, 32 + e), (b.min, b.max), name)
        inner_b = t.inner_type.bit_length_set
        inner_oracle = c01.Oracle(layout.tree(spec[1]), counters, cost_limit=40_000)
        for q in (["min"], ["max"], ["mod", 32]):
            c01.run_query(inner_b, inner_oracle, q, counters, tag=":inner")


def check_api(case: typing.Any, ctx: Ctx, share: bool = False) -> Info:
    spec = layout.freeze(case)
    builder = ApiBuilder(share=share)
    guarded(builder.build, spec, what="construct")
    for s, t in builder.by_spec:
        if s[0] in ("byte", "utf8", "void", "bool", "uint", "int", "float"):
            # primitives: a single length equal to the width, alignment 1
            b = t.bit_length_set
            require(b.min == b.max == layout.width(s), "primitive-length", layout.width(s), (b.min, b.max), str(t))
            require(t.alignment_requirement == 1, "alignment_requirement", 1, t.alignment_requirement, str(t))
            continue
        check_type_object(t, s, ctx.extra)
    nontrivial, classes = _classify(spec)
    return Info(nontrivial, ["api"] + classes, sample=layout.type_string(spec))


def check_api_shared(case: typing.Any, ctx: Ctx) -> Info:
    """Composites that occur several times are built once and the one type object is used at every place."""
    return check_api(case, ctx, share=True)


def check_text_shared(case: typing.Any, ctx: Ctx) -> Info:
    return check_text(case, ctx, share=True)


def check_text(case: typing.Any, ctx: Ctx, share: bool = False) -> Info:
    import pydsdl

    spec = case  # ids of sub-lists matter for the text builder: no freezing before emission
    if share:
        from ..gen.materialize import intern_spec

        spec = intern_spec(spec)  # one definition per distinct composite, referred to from every place it occurs
    d = ctx.scratch()
    try:
        tb = TextBuilder(d)
        tb.emit(spec)
        root = tb.write()
        types, ex = guarded(pydsdl.read_namespace, root, [], what="read_namespace", allowed=())
        by_name = {t.short_name: t for t in types}
        require(len(by_name) == len(tb.order), "read-count", len(tb.order), len(by_name))
        for s, fn in tb.order:
            t = by_name[fn.split(".")[0]]
            fs = layout.freeze(s)
            check_type_object(t, fs, ctx.extra)
            # nested members carry the same layout
            for (fname, ft), f in zip(layout.fields_of(fs), t.fields):
                if ft[0] in ("struct", "union", "delim", "fixed", "var"):
                    check_type_object(f.data_type, ft, ctx.extra, exhaustive=False)
    finally:
        ctx.cleanup(d)
    fs = layout.freeze(spec)
    nontrivial, classes = _classify(fs)
    return Info(nontrivial, ["text"] + classes, sample={"files": tb.files})


def _grid(ctx: Ctx) -> typing.Iterable[typing.Any]:
    caps = [1, 2, 254, 255, 256, 257, 65534, 65535, 65536, 65537, 2**32 - 2, 2**32 - 1, 2**32, 2**32 + 1, 2**63, 2**64 - 1]
    elems = [["bool"], ["uint", 8, "sat"], ["uint", 3, "trunc"], ["int", 64], ["float", 16, "sat"], ["struct", [["a", ["uint", 5, "sat"]]]]]
    for c in caps:
        for e in elems:
            yield {"kind": "var", "spec": ["struct", [["x", ["var", e, c]], ["y", ["uint", 8, "sat"]]]]}
            if c <= 2**32 + 1:
                yield {"kind": "fixed", "spec": ["struct", [["x", ["fixed", e, c]], ["y", ["bool"]]]]}
    variants = [2, 3, 255, 256, 257] + ([65535, 65536, 65537] if ctx.tier == "thorough" else [])
    for n in variants:
        yield {"kind": "union", "n": n, "first": ["bool"]}
        yield {"kind": "union", "n": n, "first": ["var", ["uint", 7, "sat"], 3]}
    # constants are attributes but not variants: they must not influence the tag width
    for n, c in ((200, 57), (255, 1), (255, 2), (256, 1), (2, 255), (128, 128)):
        yield {"kind": "union", "n": n, "consts": c, "first": ["uint", 8, "sat"]}


def check_grid(case: typing.Any, ctx: Ctx) -> Info:
    if case["kind"] == "union":
        n = case["n"]
        spec = ["union", [["v0", case["first"]]] + [["v%d" % i, ["uint", (i % 64) + 1, "sat"]] for i in range(1, n)], case.get("consts", 0)]
    else:
        spec = case["spec"]
    spec = layout.freeze(spec)
    builder = ApiBuilder()
    guarded(builder.build, spec, what="construct")
    for s, t in builder.by_spec:
        if s[0] in ("fixed", "var", "struct", "union"):
            check_type_object(t, s, ctx.extra, exhaustive=False)
    return Info(True, ["grid:" + case["kind"]], sample=case if case["kind"] != "union" else {"union variants": case["n"]})


def check_extent(case: typing.Any, ctx: Ctx) -> Info:
    import pydsdl

    spec = layout.freeze(case["inner"])
    delta = case["delta_bits"]
    builder = ApiBuilder()
    inner, _ = guarded(builder.build, spec, what="construct")
    mx = layout.inner_max(spec)
    extent = mx + delta
    admissible = extent % 8 == 0 and extent >= mx and extent >= 0
    t, ex = guarded(pydsdl.DelimitedType, inner, extent, allowed=(pydsdl.InvalidDefinitionError,), what="DelimitedType")
    if admissible:
        require(ex is None, "admissible-extent-rejected", "accepted", repr(ex), "max %d extent %d" % (mx, extent))
        require(t.extent == extent, "extent", extent, t.extent)
        check_type_object(t, ("delim", spec, delta // 8), ctx.extra, exhaustive=False)
    else:
        require(ex is not None, "inadmissible-extent-accepted", "InvalidDefinitionError", "accepted", "max %d extent %d" % (mx, extent))
    return Info(True, ["extent:" + ("ok" if admissible else "bad")], sample={"inner": layout.type_string(spec), "extent": extent, "inner_max": mx})


def _stress_specs() -> st.SearchStrategy:
    """Shapes that random nesting rarely hits but layout bugs hide in:
    (1) a member whose *longest* form ends byte-aligned while shorter forms do not, followed by a byte-aligned member;
    (2) members whose length sets coincide in (min, max, residues mod 32) - the library's approximate set equality - but differ."""
    sub = st.tuples(st.sampled_from([1, 2, 3, 4, 5, 6, 7, 9, 10, 12, 20]), st.integers(1, 8), st.booleans()).map(
        lambda t: ["var" if t[2] else "fixed", ["uint", t[0], "sat"], t[1]]
    )
    aligned_member = st.one_of(
        st.just(["struct", []]),
        st.just(["struct", [["k", ["uint", 8, "sat"]]]]),
        st.just(["union", [["p", ["uint", 3, "sat"]], ["q", ["uint", 16, "sat"]]]]),
        st.just(["delim", ["struct", [["k", ["bool"]]]], 1]),
        st.tuples(st.sampled_from([["struct", []], ["struct", [["k", ["uint", 5, "sat"]]]]]), st.integers(1, 3), st.booleans()).map(
            lambda t: ["var" if t[2] else "fixed", t[0], t[1]]
        ),
    )
    small = st.sampled_from([["uint", 3, "sat"], ["bool"], ["uint", 8, "sat"], ["int", 13]])

    def padding_case(t: typing.Tuple[typing.Any, typing.Any, typing.Any, typing.Any, bool]) -> typing.Any:
        pre, a, b, c, nest = t
        inner = ["struct", ([["z", pre]] if pre is not None else []) + [["a", a], ["b", b], ["c", c]]]
        if nest:
            return ["struct", [["lead", ["uint", 3, "sat"]], ["inner", inner], ["tail", ["var", ["uint", 4, "sat"], 3]], ["after", b]]]
        return inner

    padding = st.tuples(st.one_of(st.none(), small), sub, aligned_member, small, st.booleans()).map(padding_case)

    # colliding pairs: E1[<=n1] vs E2[<=n2] with n1 * |E1| == n2 * |E2|, element lengths multiples of 32 (or of 8 inside composites)
    def collide_case(t: typing.Tuple[int, int, int, bool, bool]) -> typing.Any:
        unit, k1, k2, as_union, composite_elems = t
        w1, w2 = unit * k1, unit * k2  # element widths; capacities k2*m and k1*m give the same maximum
        m = 2

        def elem(w: int) -> typing.Any:
            if composite_elems or w > 64:
                return ["struct", [["e%d" % i, ["uint", 8, "sat"]] for i in range(w // 8)]]
            return ["uint", w, "sat"]

        f1 = ["var", elem(w1), k2 * m]
        f2 = ["var", elem(w2), k1 * m]
        if as_union:
            return ["union", [["sparse", f1], ["dense", f2]] if w1 > w2 else [["sparse", f2], ["dense", f1]]]
        return ["struct", [["x", ["union", [["sparse", f1 if w1 > w2 else f2], ["dense", f2 if w1 > w2 else f1]]]], ["y", ["uint", 8, "sat"]]]]

    collide = st.tuples(st.sampled_from([8, 16, 32, 64]), st.integers(1, 4), st.integers(1, 4), st.booleans(), st.booleans()).filter(lambda t: t[1] != t[2]).map(collide_case)
    # the same composite as the element of a fixed array of exactly 8 (or a few other counts) and as a member that gets padded to a byte -
    # one object for both where composites are shared (`stress-*` parts), in either construction order
    members = st.sampled_from([
        ["struct", [["k", ["uint", 8, "sat"]]]],
        ["struct", [["k", ["uint", 5, "sat"]], ["v", ["var", ["uint", 3, "sat"], 2]]]],
        ["union", [["p", ["uint", 3, "sat"]], ["q", ["uint", 16, "sat"]]]],
        ["struct", [["v", ["var", ["uint", 8, "sat"], 3]]]],
        ["delim", ["struct", [["k", ["bool"]]]], 1],
        ["struct", []],
    ])

    def shared_case(t: typing.Tuple[typing.Any, int, bool, bool, bool]) -> typing.Any:
        member, count, array_first, extra, variable = t
        arr = ["var" if variable else "fixed", member, count]
        wrap = ["struct", [["s", member]] + ([["x", ["uint", 8, "sat"]]] if extra else [])]
        return ["struct", [["arr", arr], ["w", wrap]] if array_first else [["w", wrap], ["arr", arr]]]

    shared = st.tuples(members, st.sampled_from([8, 8, 8, 1, 2, 7, 9, 16]), st.booleans(), st.booleans(), st.sampled_from([False, False, True])).map(shared_case)
    return st.one_of(padding, padding, collide, shared)


def parts(ctx: Ctx) -> typing.List[Part]:
    api_specs = st.one_of(gt.composites(gt.layout_capacity()), gt.field_types(gt.layout_capacity()))
    text_specs = gt.composites(gt.small_capacity(), max_leaves=8)
    extent_cases = st.fixed_dictionaries(
        {
            "inner": gt.composites(gt.small_capacity(), max_leaves=6, delimited=False),
            "delta_bits": st.one_of(st.sampled_from([-8, -1, 0, 1, 4, 7, 8, 16, 64]), st.integers(-24, 40)),
        }
    )
    return [
        Part("api", api_specs, check_api, weight=5),
        Part("text", text_specs, check_text, weight=2, cost=6.0),
        Part("extent", extent_cases, check_extent, weight=1),
        Part("grid", None, check_grid, weight=0, grid=_grid),
        Part("stress-api", _stress_specs(), check_api_shared, weight=2),
        Part("stress-text", _stress_specs(), check_text_shared, weight=1, cost=5.0),
    ]
