"""C15 - a type's name, version and port-ID are exactly those encoded in its file path."""
from __future__ import annotations

import os
import pathlib
import typing

from hypothesis import strategies as st

from ..core import Info, Part, Ctx, Violation, HarnessError, require, guarded
from . import _nsutil as nu

ID = "C15"
TITLE = "A type's name, version and port-ID are exactly those encoded in its file path"
RULE = (
    "(Part reroot: one directory read 2..4 times in one process with the root namespace designated at different ancestor levels, through read_namespace / read_files with a path / a bare name.  Malformed names include lenient number spellings: signs, digit separators, blanks, non-ASCII digits.)  "
    "Cases are a file layout <prefix dirs>/<root>/<0..3 namespaces>/[<port>.]<Short>.<major>.<minor>.dsdl (drawn names, versions 0..255, "
    "optional regulated port-ID, message or service) or a malformed file name (missing / extra / non-numeric components, dots in "
    "directory names) x a designation for read_files: target absolute / relative to cwd / ./-prefixed / relative to the root's parent; "
    "root as absolute path, relative path, bare root-namespace name, several bare names in either order (one also naming a nested namespace), via a symlink, or omitted (inferred from a relative target); cwd = "
    "the root's parent, the workspace top or elsewhere; target and / or root spelled through a symbolic link into a sibling directory followed by `..`; Path vs str - and read_namespace.  Part `multi`: 2..4 "
    "targets in one call, the root namespace contributed by one or two separate trees (same namespace name under different parents), targets absolute / relative to the "
    "roots' parents / mixed, roots absolute or a bare name, lists in either order.  Oracle: an independent path model: full_name, "
    "version, fixed_port_id, source_file_path (same file), source_file_path_to_root (same directory) are those encoded in the path and "
    "identical for every designation that designates the file at all; malformed names raise InvalidDefinitionError.  Non-trivial = "
    "nesting depth >= 2, or a non-absolute designation, or a malformed name."
)
ASSUMPTIONS = [
    "leading zeros in the numeric components (Foo.01.0.dsdl) are not generated - no claim either way; signs, digit separators, blanks and non-ASCII digits are generated as malformed",
    "a designation is only asserted to work when the documentation of read_files describes it (see DESIGN.md, C15)",
]
BUDGET = {"quick": 1200, "thorough": 24000}

NAMES = ["ns", "vendor", "zubax", "Alpha", "a_1"]
SUBS = ["sub", "deep", "Node", "x1", "telemetry"]
SHORTS = ["Foo", "Bar_1", "A", "heartbeat", "Z9"]
PREFIXES = [[], ["ws"], ["ws", "project", "types"], ["a b"]]


def layout_path(case: typing.Any) -> typing.Tuple[str, str]:
    """(relative path of the root directory, relative path of the file) under the scratch directory."""
    root_rel = os.path.join(*(PREFIXES[case["prefix"] % len(PREFIXES)] + [case["root"]]))
    port = "" if case["port"] is None else "%d." % case["port"]
    fn = "%s%s.%d.%d.dsdl" % (port, case["short"], case["version"][0], case["version"][1])
    return root_rel, os.path.join(root_rel, *case["ns"], fn)


N_DESIGNATIONS = 15


def designate(case: typing.Any, base: str, root_rel: str, file_rel: str) -> typing.Tuple[str, typing.Any, typing.Any, str]:
    """Returns (cwd, target argument, roots argument, label)."""
    mode = case["designation"] % N_DESIGNATIONS
    root_abs = os.path.join(base, root_rel)
    file_abs = os.path.join(base, file_rel)
    parent_abs = os.path.dirname(root_abs)
    from_parent = os.path.relpath(file_abs, parent_abs)  # <root>/<ns>/File
    elsewhere = os.path.join(base, "elsewhere")
    as_path = case["as_path"]

    def P(x: str) -> typing.Any:
        return pathlib.Path(x) if as_path else x

    if mode == 0:
        return base, P(file_abs), [P(root_abs)], "abs-target,abs-root"
    if mode == 1:
        return parent_abs, P(from_parent), [], "relative-target,inferred-root"
    if mode == 2:
        return base, P(file_rel), [P(root_rel)], "cwd-relative-target,cwd-relative-root"
    if mode == 3:
        return elsewhere, P(from_parent), [P(root_abs)], "root-parent-relative-target,abs-root,cwd-elsewhere"
    if mode == 4:
        return base, P(file_abs), [case["root"]], "abs-target,bare-root-name"
    if mode == 5:
        return base, P(file_rel), [case["root"]], "cwd-relative-target,bare-root-name"
    if mode == 6:
        return base, P(file_abs), [P(root_rel)], "abs-target,cwd-relative-root"
    if mode == 7:
        return parent_abs, P("./" + from_parent), [P(case["root"])], "dot-relative-target,root-name-as-relative-path"
    if mode in (9, 10):
        # several bare names; one of them is also the name of a nested namespace directory of this file: the root is the
        # outermost directory of the path that bears a listed name, whatever the order of the list
        extra = case["ns"][0] if case["ns"] else "unrelated"
        names = [extra, case["root"], "another"] if mode == 9 else ["another", case["root"], extra]
        return base, P(file_abs), names, "abs-target,several-bare-names:" + ("inner-first" if mode == 9 else "outer-first")
    if mode in (11, 12, 13, 14):
        # a symbolic link into a *sibling* of the root ("current -> releases/v2/build"), followed by "..": for the operating system
        # that is the root's parent (".." is taken where the link points), lexically it is the directory that holds the link
        build = os.path.join(parent_abs, "build")
        os.makedirs(build, exist_ok=True)
        linkdir = os.path.join(base, "linkdir")
        os.makedirs(linkdir, exist_ok=True)
        cur = os.path.join(linkdir, "current")
        if not os.path.lexists(cur):
            os.symlink(build, cur)
        via = os.path.join(cur, "..", from_parent)
        root_via = os.path.join(cur, "..", case["root"])
        if mode == 11:
            return base, P(via), [P(root_abs)], "target-through-link-dotdot,abs-root"
        if mode == 12:
            return base, P(via), [P(root_via)], "target-through-link-dotdot,root-through-link-dotdot"
        if mode == 13:
            return base, P(via), [case["root"]], "target-through-link-dotdot,bare-root-name"
        return linkdir, P(os.path.join("current", "..", from_parent)), [P(os.path.join("current", "..", case["root"]))], "relative-target-through-link-dotdot,relative-root-through-link-dotdot"
    link = os.path.join(base, "lnk")
    if not os.path.lexists(link):
        os.symlink(parent_abs, link)
    return base, P(file_abs), [P(os.path.join(link, case["root"]))], "abs-target,root-through-symlink"


def check_identity(case: typing.Any, ctx: Ctx) -> Info:
    import pydsdl

    d = ctx.scratch()
    try:
        root_rel, file_rel = layout_path(case)
        os.makedirs(os.path.dirname(os.path.join(d, file_rel)), exist_ok=True)
        os.makedirs(os.path.join(d, "elsewhere"), exist_ok=True)
        text = "@sealed\n" + ("---\n@sealed\n" if case["service"] else "")
        with open(os.path.join(d, file_rel), "w") as f:
            f.write(text)
        # a sibling so that the namespace is not a singleton
        with open(os.path.join(d, root_rel, "Sibling.1.0.dsdl"), "w") as f:
            f.write("@sealed\n")
        want_name = ".".join([case["root"]] + case["ns"] + [case["short"]])
        want = {
            "full_name": want_name,
            "version": tuple(case["version"]),
            "port": case["port"],
            "file": os.path.realpath(os.path.join(d, file_rel)),
            "root": os.path.realpath(os.path.join(d, root_rel)),
            "service": case["service"],
        }

        def observe(t: typing.Any) -> typing.Any:
            return {
                "full_name": t.full_name,
                "version": (t.version.major, t.version.minor),
                "port": t.fixed_port_id,
                "file": os.path.realpath(str(t.source_file_path)),
                "root": os.path.realpath(str(t.source_file_path_to_root)),
                "service": isinstance(t, pydsdl.ServiceType),
            }

        cwd, target, roots, label = designate(case, d, root_rel, file_rel)
        where = "file %s designation %s: cwd=%s target=%r roots=%r" % (file_rel, label, os.path.relpath(cwd, d), target, roots)
        with nu.cwd(cwd):
            ck = case.get("container", 0)
            (direct, trans), _ = guarded(pydsdl.read_files, nu.as_container([target], ck // 6), nu.as_container(roots, ck), None, None, True, what="read_files:" + label)
        require(len(direct) == 1 and not trans, "read_files-result-size", "1 direct, 0 transitive", (len(direct), len(trans)), where)
        got = observe(direct[0])
        for key in ("full_name", "version", "port", "service", "file", "root"):
            require(got[key] == want[key], "identity:" + key, want[key], got[key], where)
        # request / response of a service point back to the same file
        if case["service"]:
            for part in (direct[0].request_type, direct[0].response_type):
                require(os.path.realpath(str(part.source_file_path)) == want["file"], "identity:service-part-file", want["file"], str(part.source_file_path), where)
        # and read_namespace agrees
        res, _ = guarded(pydsdl.read_namespace, os.path.join(d, root_rel), [], None, True, what="read_namespace")
        mine = [t for t in res if t.short_name == case["short"]]
        require(len(mine) == 1, "namespace-count", 1, [str(t) for t in res], where)
        got2 = observe(mine[0])
        require(got2 == want, "identity:read_namespace", want, got2, where)
    finally:
        ctx.cleanup(d)
    nontrivial = len(case["ns"]) >= 2 or case["designation"] % N_DESIGNATIONS != 0
    classes = ["designation:" + label, "depth:%d" % len(case["ns"]), "port" if case["port"] is not None else "no-port", "service" if case["service"] else "message"]
    return Info(nontrivial, classes, sample=where)


def check_multi(case: typing.Any, ctx: Ctx) -> Info:
    """Several targets in one call; the root namespace may be contributed by two separate trees (documented for
    source_file_path_to_root); every returned type must be what its own path spells."""
    import pydsdl

    d = ctx.scratch()
    try:
        root = case["root"]
        trees = ["proj_a", "proj_b"]
        files = []
        seen = set()
        for f in case["files"]:
            key = (f["short"].lower(), tuple(f["version"]))
            if f["short"].lower() in seen:
                continue
            seen.add(f["short"].lower())
            if f["port"] is not None and ("port", f["port"]) in seen:
                f = dict(f, port=None)  # (two types on one port-ID are a C11 matter, not this property's)
            seen.add(("port", f["port"]))
            port = "" if f["port"] is None else "%d." % f["port"]
            fn = "%s%s.%d.%d.dsdl" % (port, f["short"], f["version"][0], f["version"][1])
            tree = trees[f["tree"] % (2 if case["two_trees"] else 1)]
            rel_to_parent = os.path.join(root, *f["ns"], fn)
            absf = os.path.join(d, tree, rel_to_parent)
            os.makedirs(os.path.dirname(absf), exist_ok=True)
            with open(absf, "w") as fh:
                fh.write("@sealed\n")
            files.append((f, tree, rel_to_parent, absf))
        if not files:
            return Info(False, ["multi", "empty"])
        os.makedirs(os.path.join(d, "elsewhere"), exist_ok=True)
        used_trees = sorted({t for _, t, _, _ in files})
        roots_abs = [os.path.join(d, t, root) for t in (trees if case["two_trees"] else trees[:1])]
        for r in roots_abs:
            os.makedirs(r, exist_ok=True)
        style = case["style"] % 4
        as_path = case["as_path"]

        def P(x: str) -> typing.Any:
            return pathlib.Path(x) if as_path else x

        if style == 0:
            targets, roots, label = [P(a) for _, _, _, a in files], [P(r) for r in roots_abs], "abs-targets,abs-roots"
        elif style == 1:
            targets, roots, label = [P(a) for _, _, _, a in files], [root], "abs-targets,bare-root-name"
        elif style == 2:
            targets, roots, label = [P(r) for _, _, r, _ in files], [P(r) for r in roots_abs], "lookup-relative-targets,abs-roots"
        else:
            targets = [P(r) if i % 2 else P(a) for i, (_, _, r, a) in enumerate(files)]
            roots, label = [P(r) for r in roots_abs], "mixed-targets,abs-roots"
        if case["reverse_roots"]:
            roots = list(reversed(roots))
        if case["reverse_targets"]:
            targets = list(reversed(targets))
        # a target spelled relative to the roots that exists under *both* same-named roots: the documented rule is that the order of the
        # roots decides (the first one that holds the file), whatever other targets come before it in the same call
        shadowed: typing.Dict[int, typing.Tuple[str, str]] = {}
        sh = case.get("shadow")
        if sh is not None and case["two_trees"] and style >= 2:
            i = sh % len(files)
            if style == 2 or i % 2 == 1:
                f_, tree_, rel_, abs_ = files[i]
                other = [t for t in trees if t != tree_][0]
                twin = os.path.join(d, other, rel_)
                if not os.path.exists(twin):
                    os.makedirs(os.path.dirname(twin), exist_ok=True)
                    with open(twin, "w") as fh:
                        fh.write("uint8 shadow\n@sealed\n")
                    first_root = str(roots[0])
                    shadowed[i] = (os.path.join(os.path.dirname(first_root), rel_), first_root)
        where = "multi %s: targets=%r roots=%r%s" % (label, targets, roots, " shadowed=%r" % shadowed if shadowed else "")
        with nu.cwd(os.path.join(d, "elsewhere")):
            ck = case.get("container", 0)
            (direct, trans), _ = guarded(pydsdl.read_files, nu.as_container(targets, ck // 6), nu.as_container(roots, ck), None, None, True, what="read_files:multi:" + label)
        want = sorted(
            (".".join([root] + f["ns"] + [f["short"]]), tuple(f["version"]), f["port"],
             os.path.realpath(shadowed[i][0] if i in shadowed else a), os.path.realpath(shadowed[i][1] if i in shadowed else os.path.join(d, t, root)))
            for i, (f, t, _, a) in enumerate(files)
        )
        got = sorted(
            (t.full_name, (t.version.major, t.version.minor), t.fixed_port_id, os.path.realpath(str(t.source_file_path)), os.path.realpath(str(t.source_file_path_to_root)))
            for t in direct
        )
        require(not trans, "multi:transitive-not-empty", [], [str(t) for t in trans], where)
        require(got == want, "identity:multi", want, got, where)
    finally:
        ctx.cleanup(d)
    same_dir = len({os.path.dirname(r) for _, _, r, _ in files}) < len(files)
    nontrivial = len(files) >= 2 and (len(used_trees) == 2 or style >= 2)
    classes = ["multi:" + label, "files:%d" % len(files), "trees:%d" % len(used_trees)] + (["same-spelled-directory"] if same_dir else []) + (["shadowed-target"] if shadowed else [])
    return Info(nontrivial, classes, sample=where)


def check_reroot(case: typing.Any, ctx: Ctx) -> Info:
    """The same directory read several times in one process, each time with the root namespace designated at another ancestor
    level (x/outer as the root: outer.inner.Foo; x/outer/inner as the root: inner.Foo).  Every call answers for its own root:
    nothing remembered from an earlier call may show in name or source_file_path_to_root."""
    import pydsdl

    d = ctx.scratch()
    try:
        dirs = list(case["dirs"])
        port = "" if case["port"] is None else "%d." % case["port"]
        fn = "%s%s.%d.%d.dsdl" % (port, case["short"], case["version"][0], case["version"][1])
        leaf = os.path.join(d, "x", *dirs)
        os.makedirs(leaf)
        file_abs = os.path.join(leaf, fn)
        text = "@sealed\n" + ("---\n@sealed\n" if case["service"] else "")
        with open(file_abs, "w") as f:
            f.write(text)
        with open(os.path.join(leaf, "Sibling.1.0.dsdl"), "w") as f:
            f.write("@sealed\n")
        log = []
        for step in case["reads"]:
            level = step["level"] % len(dirs)
            root_abs = os.path.join(d, "x", *dirs[: level + 1])
            want = {
                "full_name": ".".join(dirs[level:] + [case["short"]]),
                "version": tuple(case["version"]),
                "port": case["port"],
                "file": os.path.realpath(file_abs),
                "root": os.path.realpath(root_abs),
            }
            api = step["api"] % 3
            where = "x/%s/%s read #%d with root x/%s via %s (earlier: %s)" % ("/".join(dirs), fn, len(log) + 1, "/".join(dirs[: level + 1]), ["read_namespace", "read_files", "read_files:bare-name"][api], log)
            if api == 0:
                res, _ = guarded(pydsdl.read_namespace, root_abs, [], None, True, what="read_namespace:reroot")
                mine = [t for t in res if t.short_name == case["short"]]
            else:
                roots = [root_abs] if api == 1 else [dirs[level]]
                if api == 2 and dirs[level] in dirs[:level]:
                    roots = [root_abs]  # (a bare name that also names an outer directory designates the outer one)
                (direct, _t), _ = guarded(pydsdl.read_files, [file_abs], roots, None, None, True, what="read_files:reroot")
                mine = list(direct)
            require(len(mine) == 1, "reroot:result-size", 1, [str(t) for t in mine], where)
            t = mine[0]
            got = {
                "full_name": t.full_name,
                "version": (t.version.major, t.version.minor),
                "port": t.fixed_port_id,
                "file": os.path.realpath(str(t.source_file_path)),
                "root": os.path.realpath(str(t.source_file_path_to_root)),
            }
            for key in ("full_name", "version", "port", "file", "root"):
                require(got[key] == want[key], "identity:%s:after-another-root" % key if log else "identity:" + key, want[key], got[key], where)
            if case["service"]:
                for part in (t.request_type, t.response_type):
                    require(os.path.realpath(str(part.source_file_path_to_root)) == want["root"], "identity:root:service-part", want["root"], str(part.source_file_path_to_root), where)
            log.append("x/" + "/".join(dirs[: level + 1]))
    finally:
        ctx.cleanup(d)
    levels = {s_["level"] % len(case["dirs"]) for s_ in case["reads"]}
    return Info(len(levels) >= 2, ["reroot", "levels:%d" % len(levels), "reads:%d" % len(case["reads"]), "depth:%d" % len(case["dirs"])], sample={"dirs": case["dirs"], "reads": case["reads"]})


MALFORMED = [
    "Foo.dsdl", "Foo.1.dsdl", "a.Foo.1.0.dsdl", "1.2.Foo.1.0.dsdl", "Foo.x.0.dsdl", "Foo.1.y.dsdl", "x.Foo.1.0.dsdl", "Foo.1.0.0.0.dsdl", "Foo..1.dsdl",
    "Foo.1.0.uavcan.dsdl", "1.0.dsdl", "Foo.-1.0.dsdl", "Foo.1.-1.dsdl", "Foo.256.0.dsdl", "Foo.0.0.dsdl", "9999.Foo.1.0.dsdl", "-1.Foo.1.0.dsdl", "1.5.Foo.1.0.dsdl",
    "Foo.1.0x1.dsdl", "1Foo.1.0.dsdl", "Fo-o.1.0.dsdl", "Fo o.1.0.dsdl", "int8.1.0.dsdl", "Foo.1.0.dsdl.dsdl",
    # the numeric components are plain decimal numbers: what merely happens to be accepted by a lenient number parser is not
    "Foo.+1.0.dsdl", "Foo.1.+0.dsdl", "Foo.1_0.0.dsdl", "Foo.1.1_0.dsdl", "Foo. 1.0.dsdl", "Foo.1.0 .dsdl", "Foo.1.-0.dsdl", "+7000.Foo.1.0.dsdl", "70_00.Foo.1.0.dsdl",
    " 7000.Foo.1.0.dsdl", "7000 .Foo.1.0.dsdl", "-0.Foo.1.0.dsdl", "Foo.\u0661.0.dsdl", "Foo.1.\u0660.dsdl", "\u0667000.Foo.1.0.dsdl", "Foo.\uff11.0.dsdl", "Foo.1.0\n.dsdl",
]


# well-formed up to the extension: read_namespace does not consider such files at all (a namespace directory may hold anything), but
# handed to read_files as a target they are file names that do not have the shape of a definition
NOT_DEFINITIONS = ["Foo.1.0.txt", "Foo.1.0.DSDL", "Foo.1.0.dsdl~", "Foo.1.0.", "Foo.1.0.dsdl.bak", "Foo.1.0.uavcan2", "7000.Foo.1.0.md", "Foo.1.0.Dsdl"]


def check_malformed(case: typing.Any, ctx: Ctx) -> Info:
    import pydsdl

    d = ctx.scratch()
    try:
        root = os.path.join(d, "ns")
        sub = os.path.join(root, *case["ns"])
        if case["dotted_dir"]:
            sub = os.path.join(sub, "bad.dir")
        os.makedirs(sub, exist_ok=True)
        name = MALFORMED[case["name"] % len(MALFORMED)] if not case["dotted_dir"] else "Fine.1.0.dsdl"
        other_extension = case.get("not_definition") is not None and not case["dotted_dir"]
        if other_extension:
            name = NOT_DEFINITIONS[case["not_definition"] % len(NOT_DEFINITIONS)]
        with open(os.path.join(sub, name), "w") as f:
            f.write("@sealed\n")
        with open(os.path.join(root, "Good.1.0.dsdl"), "w") as f:
            f.write("@sealed\n")
        where = "ns/%s" % os.path.relpath(os.path.join(sub, name), root)
        res, ex = guarded(pydsdl.read_namespace, root, [], None, True, allowed=(pydsdl.InvalidDefinitionError,), what="read_namespace:malformed")
        if other_extension:
            require(ex is None and [str(t) for t in res] == ["ns.Good.1.0"], "non-definition-file-not-ignored", ["ns.Good.1.0"], repr(ex) if ex else [str(t) for t in res], where)
        else:
            require(ex is not None, "malformed-file-name-accepted", "InvalidDefinitionError", [str(t) for t in (res or [])], where)
        (res2), ex2 = guarded(pydsdl.read_files, [os.path.join(sub, name)], [root], None, None, True, allowed=(pydsdl.InvalidDefinitionError,), what="read_files:malformed")
        require(ex2 is not None, "malformed-file-name-accepted:read_files", "InvalidDefinitionError", "accepted", where)
    finally:
        ctx.cleanup(d)
    return Info(True, ["malformed", "dotted-dir" if case["dotted_dir"] else "name:%s" % name], sample=where)


def parts(ctx: Ctx) -> typing.List[Part]:
    ident = st.fixed_dictionaries(
        {
            "prefix": st.integers(0, len(PREFIXES) - 1),
            "root": st.sampled_from(NAMES),
            "ns": st.lists(st.sampled_from(SUBS), max_size=3, unique=True),
            "short": st.sampled_from(SHORTS),
            "version": st.tuples(st.sampled_from([0, 1, 2, 100, 255]), st.sampled_from([0, 1, 7, 255])).filter(lambda v: v != (0, 0)).map(list),
            "port": st.one_of(st.none(), st.none(), st.sampled_from([0, 1, 255, 511, 6144, 7000, 8191, 300])),
            "service": st.booleans(),
            "designation": st.integers(0, N_DESIGNATIONS - 1),
            "as_path": st.booleans(),
            "container": st.integers(0, 35),
        }
    ).filter(lambda c: c["port"] is None or (c["port"] <= 511 if c["service"] else True))
    malformed = st.fixed_dictionaries({"name": st.integers(0, len(MALFORMED) - 1), "ns": st.lists(st.sampled_from(SUBS), max_size=2, unique=True), "dotted_dir": st.sampled_from([False, False, False, True]),
                                       "not_definition": st.one_of(st.none(), st.none(), st.none(), st.integers(0, len(NOT_DEFINITIONS) - 1))})
    one_file = st.fixed_dictionaries(
        {
            "tree": st.integers(0, 1),
            "ns": st.lists(st.sampled_from(SUBS[:2]), max_size=2, unique=True),
            "short": st.sampled_from(SHORTS + ["Imu", "Baro"]),
            "version": st.tuples(st.sampled_from([0, 1, 2, 100]), st.sampled_from([1, 7, 255])).map(list),
            "port": st.one_of(st.none(), st.none(), st.sampled_from([0, 255, 2000, 7000])),
        }
    )
    multi = st.fixed_dictionaries(
        {
            "root": st.sampled_from(NAMES),
            "files": st.lists(one_file, min_size=2, max_size=4),
            "two_trees": st.sampled_from([True, True, False]),
            "style": st.integers(0, 3),
            "as_path": st.booleans(),
            "container": st.integers(0, 35),
            "reverse_roots": st.booleans(),
            "reverse_targets": st.booleans(),
            "shadow": st.one_of(st.none(), st.integers(0, 3), st.integers(0, 3)),
        }
    )
    reroot = st.fixed_dictionaries(
        {
            "dirs": st.lists(st.sampled_from(NAMES + SUBS), min_size=2, max_size=4),
            "short": st.sampled_from(SHORTS),
            "version": st.tuples(st.sampled_from([0, 1, 2, 255]), st.sampled_from([1, 7, 255])).map(list),
            "port": st.one_of(st.none(), st.sampled_from([0, 255, 7000])),
            "service": st.booleans(),
            "reads": st.lists(st.fixed_dictionaries({"level": st.integers(0, 3), "api": st.integers(0, 2)}), min_size=2, max_size=4),
        }
    ).filter(lambda c: c["port"] is None or (c["port"] <= 511 if c["service"] else True))
    return [Part("identity", ident, check_identity, weight=4), Part("multi", multi, check_multi, weight=2), Part("reroot", reroot, check_reroot, weight=2), Part("malformed", malformed, check_malformed, weight=1)]
