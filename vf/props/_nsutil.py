"""Helpers shared by the namespace-level properties (C09, C10, C11, C15, C19)."""
from __future__ import annotations

import contextlib
import os
import pathlib
import typing

from ..gen import workspace as wsp


@contextlib.contextmanager
def salted_hashes(salt: int) -> typing.Iterator[None]:
    """Perturb the hash of everything pydsdl keeps in sets (paths, definitions, composites) consistently with equality:
    an in-process stand-in for PYTHONHASHSEED that explores set iteration orders."""
    if not salt:
        yield
        return
    import pydsdl
    from pydsdl import _dsdl_definition

    targets = [pathlib.PurePath, _dsdl_definition.DSDLDefinition, pydsdl.SerializableType]
    saved = []
    for cls in targets:
        orig = cls.__dict__.get("__hash__")
        if orig is None:
            continue
        saved.append((cls, orig))

        def make(o: typing.Any) -> typing.Any:
            def salted(self: typing.Any) -> int:
                return hash((salt, o(self)))

            return salted

        cls.__hash__ = make(orig)  # type: ignore
    try:
        yield
    finally:
        for cls, orig in saved:
            cls.__hash__ = orig  # type: ignore


@contextlib.contextmanager
def permuted_rglob(seed: int) -> typing.Iterator[None]:
    """Return directory enumeration results in a different order (file systems promise none)."""
    if not seed:
        yield
        return
    orig = pathlib.Path.rglob

    def rglob(self: typing.Any, pattern: str, **kw: typing.Any) -> typing.Any:
        items = list(orig(self, pattern, **kw))
        s = seed
        out = []
        while items:
            s = (s * 1103515245 + 12345) & 0x7FFFFFFF
            out.append(items.pop(s % len(items)))
        return iter(out)

    pathlib.Path.rglob = rglob  # type: ignore
    try:
        yield
    finally:
        pathlib.Path.rglob = orig  # type: ignore


@contextlib.contextmanager
def cwd(path: str) -> typing.Iterator[None]:
    old = os.getcwd()
    os.chdir(path)
    try:
        yield
    finally:
        os.chdir(old)


def spell_directory(base: str, rel: str, style: int, link_dir: str) -> typing.Any:
    """One of the equivalent ways of naming directory <base>/<rel>; relative forms assume cwd == base."""
    absolute = os.path.join(base, rel)
    s = style % 10
    if s in (8, 9):
        # "<symlink to the directory itself>/../<name>": the link lives elsewhere, so only physical resolution (the parent of the
        # link's *target*) finds the directory - collapsing "x/.." textually would look next to the link
        link = os.path.join(link_dir, "self_" + str(abs(hash_str(absolute)) % 100000))
        if not os.path.lexists(link):
            os.symlink(absolute, link)
        if s == 9:
            link = os.path.relpath(link, base)  # (relpath would collapse the ".." if it were applied to the whole spelling)
        return os.path.join(link, "..", os.path.basename(absolute))
    if s == 0:
        return absolute
    if s == 1:
        return pathlib.Path(absolute)
    if s == 2:
        return rel
    if s == 3:
        return "./" + rel
    if s == 4:
        first = rel.split(os.sep)[0]
        return os.path.join(first, "..", rel)
    if s == 5:
        return absolute + os.sep
    if s == 6:
        return pathlib.Path(rel)
    # through a symlink to the *parent* directory (the root namespace name must stay the directory's own name)
    parent, name = os.path.split(absolute)
    link = os.path.join(link_dir, "lnk_" + str(abs(hash_str(parent)) % 100000))
    if not os.path.lexists(link):
        os.symlink(parent, link)
    return os.path.join(link, name)


def as_container(items: typing.Any, kind: int) -> typing.Any:
    """The same sequence of paths / names in another iterable form (the API takes any Iterable; a str / Path stays what it is).
    One-shot forms (generator, iterator, map) can be consumed only once."""
    if isinstance(items, (str, pathlib.PurePath)) or items is None:
        return items
    xs = list(items)
    k = kind % 6
    if k == 1:
        return tuple(xs)
    if k == 2:
        return (x for x in xs)
    if k == 3:
        return iter(xs)
    if k == 4:
        return map(lambda x: x, xs)
    if k == 5:
        return dict.fromkeys(xs).keys()  # ordered, duplicates dropped: a re-iterable view
    return xs


def hash_str(s: str) -> int:
    h = 0
    for ch in s:
        h = (h * 131 + ord(ch)) & 0xFFFFFFFF
    return h


def canonical(ws: typing.Any, types: typing.Iterable[typing.Any], base: str) -> typing.List[typing.Any]:
    out = []
    realbase = os.path.realpath(base)
    for t in types:
        p = os.path.relpath(os.path.realpath(str(t.source_file_path)), realbase)
        r = os.path.relpath(os.path.realpath(str(t.source_file_path_to_root)), realbase)
        out.append([list(wsp.ident(t)), p, r, wsp.fingerprint(t)])
    return out


def expected_order(ws: typing.Any, indices: typing.Iterable[int]) -> typing.List[int]:
    return sorted(indices, key=lambda i: wsp.sort_key(ws, i))
