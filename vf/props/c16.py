"""C16 - layout analysis is symbolic: cost does not grow with capacities or extents."""
from __future__ import annotations

import copy
import itertools as _real_itertools
import os
import typing

from hypothesis import strategies as st

from ..core import Info, Part, Ctx, Violation, HarnessError, require, guarded
from ..gen import types as gt
from ..gen.materialize import ApiBuilder, TextBuilder
from ..ref import bls as rbls
from ..ref import layout

ID = "C16"
TITLE = "Layout analysis is symbolic: cost does not grow with capacities or extents"
RULE = (
    "Cases are type templates (structures / unions / delimited composites nested <= 3 levels, sub-byte and byte-aligned primitives, fixed "
    "and variable arrays of primitives and of variable-length composites) whose array capacities and extent slacks are slots; every slot "
    "gets a *small* value and a *huge* value that are congruent modulo 64 and select the same length-prefix width (so both layouts have "
    "the same residues for every divisor the library queries): 2**8..2**16, 2**16..2**32, 2**32..2**63 + offsets.  Both variants are built "
    "through the public constructors and through DSDL text, and min / max / extent / fixed_length / byte alignment of the type and of "
    "every field offset, == and hash of two independently built copies are queried, while the harness counts the elements enumerated "
    "inside the solver (itertools.product / combinations_with_replacement in the symbolic module) and the size of every numerical "
    "expansion.  Oracles: no expansion larger than 64 elements; work(huge) <= 8 * work(small) + 20000; work never exceeds a fixed budget "
    "(an enumerating implementation is cut off deterministically instead of hanging); no explicit leaf set larger than 64 elements is built; and, as a backstop for growth that bypasses the counted primitives, CPU time (process time, load-insensitive) of the huge variant <= 50 x small + 5 s with an 8 s CPU cut-off.  No wall-clock oracle.  Non-trivial = a capacity >= "
    "2**32 and a variable-length member nested under another."
)
ASSUMPTIONS = [
    "cost is measured in elements touched inside pydsdl._bit_length_set._symbolic (product / multicombination tuples x tuple length) and in the size of sets returned by expand(); a slowdown that bypasses both would be missed",
    "templates whose legitimate residue enumeration is itself large (the documented C(r + k, k) growth in the number of residues) are filtered out by a cost model so that the budget stays meaningful",
]
BUDGET = {"quick": 1200, "thorough": 24000}

WORK_BUDGET = 120_000_000
MAX_EXPANSION = 64
CPU_BUDGET_S = 8.0  # CPU seconds (ITIMER_VIRTUAL: insensitive to machine load) per variant; legitimate cases need milliseconds


class WorkBudgetExceeded(BaseException):
    pass


class CpuBudgetExceeded(BaseException):
    pass


def _cpu_alarm(_sig: int, _frame: typing.Any) -> None:
    raise CpuBudgetExceeded()


class Meter:
    """Counting shim for the `itertools` name inside the symbolic solver + expansion size recorder."""

    def __init__(self) -> None:
        self.work = 0
        self.max_expansion = 0
        self.expansions = 0
        self.max_leaf = 0
        self.cpu_s = 0.0
        self.budget = WORK_BUDGET

    # --- itertools facade
    def __getattr__(self, name: str) -> typing.Any:
        return getattr(_real_itertools, name)

    def _count(self, it: typing.Iterable[typing.Any]) -> typing.Iterator[typing.Any]:
        for el in it:
            self.work += len(el) if isinstance(el, tuple) else 1
            if self.work > self.budget:
                raise WorkBudgetExceeded()
            yield el

    def product(self, *a: typing.Any, **kw: typing.Any) -> typing.Any:
        return self._count(_real_itertools.product(*a, **kw))

    def combinations_with_replacement(self, iterable: typing.Any, r: int) -> typing.Any:
        if r > self.budget:  # the very first tuple would have more elements than the whole budget (and would not fit in memory)
            self.work += r
            raise WorkBudgetExceeded()
        return self._count(_real_itertools.combinations_with_replacement(iterable, r))


_installed: typing.Dict[str, typing.Any] = {}


def install(meter: Meter) -> None:
    from pydsdl._bit_length_set import _symbolic as sym

    if not _installed:
        _installed["itertools"] = sym.itertools
        _installed["expand"] = {}
        for name in dir(sym):
            cls = getattr(sym, name)
            if isinstance(cls, type) and issubclass(cls, sym.Operator) and "expand" in cls.__dict__ and cls is not sym.Operator:
                _installed["expand"][cls] = cls.__dict__["expand"]
    sym.itertools = meter  # type: ignore
    if "leaf_init" not in _installed:
        _installed["leaf_init"] = sym.NullaryOperator.__init__

        def leaf_init(self: typing.Any, values: typing.Any) -> None:
            cur = _installed.get("meter")
            try:
                n_before = len(values)
            except TypeError:
                n_before = 0
            if cur is not None and n_before > cur.budget:  # e.g. a range over an extent: do not even try to materialise it
                cur.max_leaf = max(cur.max_leaf, n_before)
                raise WorkBudgetExceeded()
            _installed["leaf_init"](self, values)
            cur = _installed.get("meter")
            if cur is not None:
                n = len(self._value)
                cur.max_leaf = max(cur.max_leaf, n)
                cur.work += n
                if cur.work > cur.budget:
                    raise WorkBudgetExceeded()

        _installed["leaf_init_wrapper"] = leaf_init
    sym.NullaryOperator.__init__ = _installed["leaf_init_wrapper"]  # type: ignore
    for cls, orig in _installed["expand"].items():
        def make(o: typing.Any) -> typing.Any:
            def expand(self: typing.Any) -> typing.Any:
                out = o(self)
                cur = _installed.get("meter")
                if cur is not None:
                    cur.expansions += 1
                    cur.max_expansion = max(cur.max_expansion, len(out))
                    cur.work += len(out)
                    if cur.work > cur.budget:
                        raise WorkBudgetExceeded()
                return out

            return expand

        cls.expand = make(orig)
    _installed["meter"] = meter


def uninstall() -> None:
    from pydsdl._bit_length_set import _symbolic as sym

    if _installed:
        sym.itertools = _installed["itertools"]  # type: ignore
        for cls, orig in _installed["expand"].items():
            cls.expand = orig
        sym.NullaryOperator.__init__ = _installed["leaf_init"]  # type: ignore
        _installed["meter"] = None


# divisors of 64 only: the small and the huge variant of a case have capacities congruent modulo 64, so for these divisors (and no
# others) the two variants legitimately cost the same
OTHER_DIVISORS = [2, 4, 16, 64]


def exercise_api(spec: typing.Any) -> None:
    """Everything the statement lists, on two independently built copies."""
    import pydsdl

    a = ApiBuilder().build(spec)
    b = ApiBuilder().build(spec)
    for t in (a, b):
        s = t.bit_length_set
        _ = (s.min, s.max, s.fixed_length, s.is_aligned_at_byte(), t.extent, t.alignment_requirement)
        for f, off in t.iterate_fields_with_offsets():
            _ = (off.min, off.max, off.fixed_length, off.is_aligned_at_byte(), off.is_aligned_at(f.data_type.alignment_requirement))
            ft = f.data_type
            if isinstance(ft, pydsdl.CompositeType) and not isinstance(ft, pydsdl.ServiceType):
                for f2, off2 in ft.iterate_fields_with_offsets(off):
                    _ = (off2.min, off2.max, off2.is_aligned_at_byte())
    _ = (a == b, hash(a) == hash(b), a != b)
    _ = {a, b}
    # alignment at other divisors than the byte: "no set larger than the queried divisor" holds for whatever divisor is queried.
    # Only divisors whose *legitimate* cost (multicombinations of the residues, counts reduced below 2d) is small are asked, so
    # that anything beyond the budget is cost that grows with the capacities.
    tree = layout.tree(spec)
    for d in OTHER_DIVISORS:
        try:
            if rbls.modulo_cost(tree, d) > 300_000:
                continue
        except rbls.TooBig:
            continue
        s = a.bit_length_set
        _ = (s.is_aligned_at(d), sorted(s % d)[:3])


def measure(fn: typing.Callable[[], None]) -> typing.Tuple[Meter, typing.Optional[BaseException]]:
    import signal
    import time

    m = Meter()
    install(m)
    err: typing.Optional[BaseException] = None
    old_handler = signal.signal(signal.SIGVTALRM, _cpu_alarm)
    t0 = time.process_time()
    try:
        signal.setitimer(signal.ITIMER_VIRTUAL, CPU_BUDGET_S)
        try:
            fn()
        finally:
            signal.setitimer(signal.ITIMER_VIRTUAL, 0)
    except (WorkBudgetExceeded, CpuBudgetExceeded) as ex:
        err = ex
    except (MemoryError, OverflowError, RecursionError) as ex:
        err = ex
    finally:
        m.cpu_s = time.process_time() - t0
        signal.signal(signal.SIGVTALRM, old_handler)
        uninstall()
    return m, err


def fill(template: typing.Any, values: typing.List[int]) -> typing.Any:
    """Replace capacity slots ["slot", i] by values[i]."""
    if isinstance(template, list):
        if len(template) == 2 and template[0] == "slot":
            return values[template[1]]
        return [fill(x, values) for x in template]
    return template


def slots(template: typing.Any, acc: typing.Optional[typing.Set[int]] = None) -> typing.Set[int]:
    acc = set() if acc is None else acc
    if isinstance(template, list):
        if len(template) == 2 and template[0] == "slot":
            acc.add(template[1])
        else:
            for x in template:
                slots(x, acc)
    return acc


CLASSES = [(2**8, 2**16 - 1), (2**16, 2**32 - 1), (2**32, 2**63)]


def slot_values(choice: typing.Any) -> typing.Tuple[int, int]:
    """(small, huge): congruent mod 64, same prefix-width class."""
    lo, hi = CLASSES[choice["cls"] % 3]
    r = choice["r"] % 64
    small = lo + (r - lo) % 64
    span = (hi - small) // 64
    huge = small + 64 * max(1, (span * (1 + choice["frac"] % 16)) // 16)
    huge = min(huge, small + 64 * span)
    return small, huge


def _verify_pair(kind: str, small: Meter, huge: Meter, es: typing.Any, eh: typing.Any, where: str) -> None:
    def label(e: typing.Any) -> str:
        if isinstance(e, WorkBudgetExceeded):
            return "work-budget-exceeded"
        if isinstance(e, CpuBudgetExceeded):
            return "cpu-budget-exceeded"
        return "crash:" + type(e).__name__

    def describe(e: typing.Any) -> str:
        if isinstance(e, WorkBudgetExceeded):
            return "more than %d elements touched inside the solver (cut off)" % WORK_BUDGET
        if isinstance(e, CpuBudgetExceeded):
            return "more than %.0f CPU seconds (cut off)" % CPU_BUDGET_S
        return repr(e)[:200]

    # the cost-model filter keeps the legitimate cost of both variants well below the budgets (largest legitimate work seen: 1.5e7 elements, budget 1.2e8), so exceeding
    # one - with the small capacities (2**8 .. 2**32) or with the huge ones - means the analysis scales with the capacity
    require(es is None, label(es) + ":" + kind, "analysis of the small variant completes within the budgets", describe(es), where)
    require(eh is None, label(eh) + ":" + kind, "work(huge) about %d elements / %.2f CPU s like the small variant" % (small.work, small.cpu_s), describe(eh), where)
    require(small.max_expansion <= MAX_EXPANSION and huge.max_expansion <= MAX_EXPANSION, "numerical-expansion:" + kind, "<= %d elements" % MAX_EXPANSION,
            (small.max_expansion, huge.max_expansion), where)
    require(small.max_leaf <= MAX_EXPANSION and huge.max_leaf <= MAX_EXPANSION, "explicit-set-constructed:" + kind, "<= %d elements" % MAX_EXPANSION,
            (small.max_leaf, huge.max_leaf), where)
    # (the two variants are not cost-identical: the extent of an enclosing delimited type scales with the capacities, so its
    # repetition count has another residue; that legitimately moves the count by a small factor, never by orders of magnitude)
    require(huge.work <= 8 * small.work + 20000, "cost-grows-with-capacity:" + kind, "<= 8 * %d + 20000" % small.work, huge.work, where)
    # CPU time (process time, not wall clock): generous, only there to catch growth that bypasses the counted primitives
    require(huge.cpu_s <= 50 * small.cpu_s + 5.0, "cpu-time-grows-with-capacity:" + kind, "<= 50 * %.3f + 5 s" % small.cpu_s, "%.3f s" % huge.cpu_s, where)


def check_cost(case: typing.Any, ctx: Ctx) -> Info:
    import pydsdl

    template = case["template"]
    n = (max(slots(template)) + 1) if slots(template) else 0
    pairs = [slot_values(case["slots"][i % len(case["slots"])]) for i in range(n)]
    s_small = layout.freeze(fill(template, [p[0] for p in pairs]))
    s_huge = layout.freeze(fill(template, [p[1] for p in pairs]))
    # keep templates whose *legitimate* residue enumeration is modest (cost model of the documented algorithm)
    try:
        est = sum(rbls.modulo_cost(layout.tree(s_small), d) for d in (8, 32))
    except rbls.TooBig:
        est = 10**9
    if est > 600_000:
        ctx.extra["filtered_by_cost_model"] = ctx.extra.get("filtered_by_cost_model", 0) + 1
        return Info(False, ["filtered"])
    where = "small %s | huge %s" % (layout.type_string(s_small)[:300], layout.type_string(s_huge)[:300])
    # --- API
    ms, es = measure(lambda: exercise_api(s_small))
    mh, eh = measure(lambda: exercise_api(s_huge))
    _verify_pair("api", ms, mh, es, eh, where)
    ctx.extra["max_work_seen"] = max(ctx.extra.get("max_work_seen", 0), ms.work, mh.work)
    # --- DSDL text: reading the definitions
    if case["text"]:
        results = []
        for spec_ in (fill(template, [p[0] for p in pairs]), fill(template, [p[1] for p in pairs])):
            d = ctx.scratch()
            try:
                tb = TextBuilder(d)
                tb.emit(spec_)
                failing = case.get("fail_assert")
                if failing is not None:
                    # rejecting a definition is reading it too: a false assertion after some of the fields of the outermost type
                    top = tb.order[-1][1]
                    lines = tb.files[top].split("\n")
                    first_field = 1 if lines[0] == "@union" else 0
                    n_fields = len([ln for ln in lines if ln and not ln.startswith("@")])
                    at = first_field + (n_fields if lines[0] == "@union" else 1 + failing % max(1, n_fields))
                    lines.insert(min(at, len(lines) - 2), "@assert 2 + 2 == 5")
                    tb.files[top] = "\n".join(lines)
                if case.get("minor_twin"):
                    # a second minor version of the outermost type (same text): reading then includes the cross-version rules,
                    # whose cost must not depend on the capacities either
                    top_fn = tb.order[-1][1]
                    tb.files[top_fn.replace(".1.0.dsdl", ".1.%d.dsdl" % (1 + case["minor_twin"] % 3))] = tb.files[top_fn]
                root = tb.write()

                def read() -> None:
                    if failing is not None:
                        try:
                            pydsdl.read_namespace(root, [])
                        except pydsdl.InvalidDefinitionError:
                            return
                        raise HarnessError("the definition with a false assertion was accepted")
                    types = pydsdl.read_namespace(root, [])
                    for t in types:
                        s = t.bit_length_set
                        _ = (s.min, s.max, s.fixed_length, t.extent, s.is_aligned_at_byte())
                        for f, off in t.iterate_fields_with_offsets():
                            _ = (off.min, off.max, off.is_aligned_at_byte())
                    _ = sorted(types, key=str), set(types)

                results.append(measure(read))
            finally:
                ctx.cleanup(d)
        (ts, ets), (th, eth) = results
        _verify_pair("text", ts, th, ets, eth, where)
        ctx.extra["max_work_seen"] = max(ctx.extra.get("max_work_seen", 0), ts.work, th.work)
    huge_cap = any(p[1] >= 2**32 for p in pairs)
    nested_var = any(s[0] == "var" and any(x[0] == "var" for x in layout.walk(s[1])) for s in layout.walk(s_huge))
    classes = ["slots:%d" % n, "work:%s" % ("<1e3" if mh.work < 1000 else "<1e5" if mh.work < 100000 else ">=1e5")]
    if huge_cap:
        classes.append("capacity>=2^32")
    if nested_var:
        classes.append("nested-variable")
    return Info(huge_cap and nested_var, classes, sample={"huge": layout.type_string(s_huge)[:400], "work_small": ms.work, "work_huge": mh.work, "max_expansion": mh.max_expansion})


def _templates() -> st.SearchStrategy:
    counter = {"n": 0}
    # (the standard widths in good supply: element lengths that are multiples of 16 / 24 / 32 / 40 / 64 bits are what makes residue sets
    # modulo 32 and 64 interesting - {8, 40}, {16, 48}, cosets that an iteration over the capacity cycles through without settling)
    prim = st.one_of(gt.primitive(), st.sampled_from([["uint", 8, "sat"], ["uint", 1, "sat"], ["bool"], ["uint", 3, "trunc"], ["float", 16, "sat"], ["int", 64]]),
                     st.sampled_from([["uint", 32, "sat"], ["float", 32, "sat"], ["int", 32], ["uint", 16, "sat"], ["uint", 24, "sat"], ["uint", 40, "sat"], ["uint", 64, "sat"], ["float", 64, "sat"], ["uint", 48, "trunc"]]))
    slot = st.integers(0, 3).map(lambda i: ["slot", i])
    small_cap = st.integers(1, 3)
    cap = st.one_of(slot, slot, small_cap)

    def arrays(elem: st.SearchStrategy) -> st.SearchStrategy:
        return st.one_of(st.tuples(elem, cap).map(lambda t: ["var", t[0], t[1]]), st.tuples(elem, cap).map(lambda t: ["fixed", t[0], t[1]]))

    level0 = st.one_of(prim, arrays(prim), slot.map(lambda s: ["var", ["utf8"], s]), slot.map(lambda s: ["var", ["byte"], s]))

    def composite(children: st.SearchStrategy) -> st.SearchStrategy:
        def name(ts: typing.List[typing.Any]) -> typing.List[typing.Any]:
            return [["" if t[0] == "void" else "f%d" % i, t] for i, t in enumerate(ts)]

        struct = st.lists(st.one_of(children, children, st.integers(1, 9).map(lambda n: ["void", n])), min_size=1, max_size=4).map(lambda ts: ["struct", name(ts)])
        union = st.lists(children, min_size=2, max_size=3).map(lambda ts: ["union", name(ts)])
        comp = st.one_of(struct, struct, union)
        return st.one_of(comp, comp, st.tuples(comp, st.one_of(st.integers(0, 2), slot)).map(lambda t: ["delim", t[0], t[1]]))

    def force_var(t: typing.Any, leaf: typing.Any, pos: int) -> typing.Any:
        """The composite `t` with one more member: a variable-length array (constructed, not filtered for)."""
        body = t[1] if t[0] == "delim" else t
        fields = list(body[1])
        fields.insert(pos % (len(fields) + 1), ["fx", leaf])
        body = [body[0], fields] + list(body[2:])
        return ["delim", body, t[2]] if t[0] == "delim" else body

    var_leaf = st.one_of(slot.map(lambda s: ["var", ["utf8"], s]), slot.map(lambda s: ["var", ["byte"], s]), st.tuples(prim, cap).map(lambda t: ["var", t[0], t[1]]))
    level1 = composite(level0)
    # a variable-length array (capacity slot) of composites that themselves hold a variable-length array: the shape whose naive
    # analysis is quadratic-or-worse in the capacities and the one the non-triviality rule asks for
    nested1 = st.tuples(level1, var_leaf, st.integers(0, 4), st.one_of(slot, slot, slot, small_cap)).map(lambda t: ["var", force_var(t[0], t[1], t[2]), t[3]])
    # a fixed-length array (capacity slot) of sealed structures whose only variable part is an array of a standard width: the element's
    # residues modulo 64 are a coset pair like {8, 40} or {24, 56} - summing them up one copy at a time cycles with a period of 4 and more
    wide = st.sampled_from([["uint", 32, "sat"], ["float", 32, "sat"], ["int", 32], ["uint", 16, "sat"], ["uint", 24, "sat"], ["uint", 40, "sat"], ["uint", 64, "sat"]])
    cyclic = st.tuples(wide, small_cap, st.lists(st.sampled_from([["uint", 16, "sat"], ["uint", 32, "sat"], ["uint", 8, "sat"], ["uint", 64, "sat"]]), max_size=2), slot).map(
        lambda t: ["fixed", ["struct", [["v", ["var", t[0], t[1]]]] + [["x%d" % i, x] for i, x in enumerate(t[2])]], t[3]]
    )
    # arrays of composites that have no fields at all: every length is zero whatever the capacity - nothing to enumerate, so nothing
    # about them may cost anything (an equality shortcut for "small" sets that expands them would walk the whole capacity)
    hollow = st.tuples(st.sampled_from([["struct", []], ["struct", []], ["delim", ["struct", []], 0]]), slot, st.sampled_from(["fixed", "fixed", "var"])).map(lambda t: [t[2], t[0], t[1]])
    tiny = st.tuples(hollow, st.lists(st.sampled_from([["uint", 8, "sat"], ["bool"], ["uint", 3, "sat"]]), max_size=2), st.booleans()).map(
        lambda t: ["struct", ([["items", t[0]]] if t[2] else []) + [["t%d" % i, x] for i, x in enumerate(t[1])] + ([] if t[2] else [["items", t[0]]])]
    )
    level2 = composite(st.one_of(level0, level1, arrays(level1), cyclic, hollow))
    level2n = composite(st.one_of(level0, nested1, nested1))
    nested2 = st.tuples(level2n, var_leaf, st.integers(0, 4), st.one_of(slot, small_cap)).map(lambda t: ["var", force_var(t[0], t[1], t[2]), t[3]])
    level3 = composite(st.one_of(level0, level1, level2, arrays(level2), arrays(level1)))
    level3n = composite(st.one_of(level0, level2n, nested2, nested1))
    # every template has at least one capacity slot - by construction: a template that came out without one gets a variable-length member
    # whose capacity is a slot.  (Not `.filter`: Hypothesis records every retried draw of a filter under a key that contains the repr of
    # the strategy, which is megabytes long for this recursive one - a shard of the thorough tier ran out of memory that way.)
    slot_leaf = st.tuples(st.sampled_from([["utf8"], ["byte"], ["uint", 8, "sat"], ["bool"]]), slot).map(lambda t: ["var", t[0], t[1]])
    return st.tuples(st.one_of(level1, level2, level2n, level2n, level3, level3n, level3n, tiny), slot_leaf, st.integers(0, 4)).map(
        lambda t: t[0] if len(slots(t[0])) >= 1 else force_var(t[0], t[1], t[2])
    )


def parts(ctx: Ctx) -> typing.List[Part]:
    cases = st.fixed_dictionaries(
        {
            "template": _templates(),
            "slots": st.lists(st.fixed_dictionaries({"cls": st.sampled_from([0, 1, 2, 2, 2]), "r": st.integers(0, 63), "frac": st.integers(0, 15)}), min_size=4, max_size=4),
            "text": st.booleans(),
            "minor_twin": st.sampled_from([0, 0, 1, 2, 3]),
            "fail_assert": st.one_of(st.none(), st.none(), st.integers(0, 5)),
        }
    )
    return [Part("cost", cases, check_cost, weight=1)]
