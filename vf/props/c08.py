"""C08 - field offsets and in-language layout intrinsics equal the real bit positions."""
from __future__ import annotations

import re
import typing

from hypothesis import strategies as st

from ..core import Info, Part, Ctx, Violation, HarnessError, require, guarded
from ..gen import types as gt
from ..gen.materialize import ApiBuilder, TextBuilder, dsdl_type_text
from ..ref import bls as rbls
from ..ref import codec, layout
from . import c01

ID = "C08"
TITLE = "Field offsets and in-language layout intrinsics equal the real bit positions"
RULE = (
    "(Before the complete iteration 0..3 iterations over the same object are abandoned after a drawn number of items, from the same base or the default one; the default-base iteration must list every field too.)  "
    "Cases: (a) composite spec (struct / union / delimited, nested, capacities <= 12) x base offset set (1..3 values 0..130, aligned or "
    "not) x 4 drawn values; (b) fixed-length array spec x base; (c) DSDL text of a struct / union message or of a service (request and response sections) with `@print _offset_` after every "
    "field and `@print T._bit_length_` / `T._extent_` for every dependency.  Oracles: the offset of field i is the set "
    "pad(pad(base, 8) [+ header] + lengths of fields[:i], alignment of field i) evaluated by the independent set models (explicit set when "
    "<= 5000 elements, else min / max / residues); every field once, in order, by identity; union variants all at base + tag; ground "
    "truth: the start bit of every top-level field in real encodings made by the reference encoder is an element of the reported set; "
    "`_offset_` is the unpadded set of lengths before the point, tag + union of variants after a union's last variant.  "
    "Non-trivial = a field preceded by a variable-length member and a sub-byte member, or a multi-valued base."
)
ASSUMPTIONS = [
    "positions inside a nested delimited member follow the Specification's opaque model (header + any whole number of bytes up to the extent); real encodings are required to be a subset",
    "explicit equality only when the model's set has <= 5000 elements",
]
BUDGET = {"quick": 700, "thorough": 14000}
# coverage-guided twins (thorough tier): part name -> executions per shard; see core.cover
COVER = {"offsets": 2500}


def _check_offset(b: typing.Any, tree: typing.Any, counters: typing.Dict[str, int], what: str) -> None:
    oracle = c01.Oracle(rbls.freeze(tree), counters, cost_limit=40_000)
    for q in (["min"], ["max"], ["mod", 8], ["mod", 32], ["albyte"], ["iter"]):
        try:
            c01.run_query(b, oracle, q, counters, tag=":offset")
        except Violation as v:
            raise Violation(v.signature, v.expected, v.observed, "%s: %s" % (what, v.detail))


def _base_tree(base: typing.List[int]) -> typing.Any:
    return ("leaf", tuple(sorted(set(base))))


def field_offset_tree(body: typing.Any, i: int, start: typing.Any) -> typing.Any:
    """start = tree of the (padded) position where the composite's first field begins."""
    if body[0] == "union":
        return ("cat", (start, ("leaf", (layout.tag_width(len(body[1])),))))
    tr = ("cat", (start, layout.struct_body(body[1], upto=i)))
    a = layout.alignment(body[1][i][1])
    return ("pad", tr, a) if a > 1 else tr


def check_offsets(case: typing.Any, ctx: Ctx) -> Info:
    import pydsdl

    spec = layout.freeze(case["spec"])
    base = case["base"]
    builder = ApiBuilder()
    t, _ = guarded(builder.build, spec, what="construct")
    name = layout.type_string(spec)[:300]
    body = spec[1] if spec[0] == "delim" else spec
    start: typing.Any = ("pad", _base_tree(base), 8)
    if spec[0] == "delim":
        start = ("cat", (start, ("leaf", (32,))))
    # callers are free to stop consuming the iterator early (all() / any() / next() / break): an abandoned iteration, from the
    # same base or the default one, must not show in what a later, complete iteration yields
    for k in case.get("abandon", []):
        def partial() -> int:
            it = t.iterate_fields_with_offsets(pydsdl.BitLengthSet(base)) if k % 2 else t.iterate_fields_with_offsets()
            n_taken = 0
            for _ in range((k // 2) % (len(t.fields) + 1)):
                next(it)
                n_taken += 1
            return n_taken

        guarded(partial, what="iterate_fields_with_offsets:partial")
    got, _ = guarded(lambda: list(t.iterate_fields_with_offsets(pydsdl.BitLengthSet(base))), what="iterate_fields_with_offsets")
    fields = t.fields
    require(len(got) == len(fields) == len(body[1]), "field-count", len(body[1]), len(got), name)
    for i, ((f, off), expected_field) in enumerate(zip(got, fields)):
        require(f is expected_field, "field-order", repr(expected_field), repr(f), name)
        _check_offset(off, field_offset_tree(body, i, start), ctx.extra, "field %d (%s) of %s base %s" % (i, f.name, name, base))
    # the same object asked again with other bases (a second question must not be answered from the first one: the bases may agree
    # in min, max and residues mod 32 - the library's approximate set equality - and still differ)
    for base_n in case.get("more_bases", []):
        start_n: typing.Any = ("pad", _base_tree(base_n), 8)
        if spec[0] == "delim":
            start_n = ("cat", (start_n, ("leaf", (32,))))
        got_n, _ = guarded(lambda: list(t.iterate_fields_with_offsets(pydsdl.BitLengthSet(base_n))), what="iterate_fields_with_offsets:again")
        require(len(got_n) == len(fields), "field-count", len(fields), len(got_n), name)
        for i, (f, off) in enumerate(got_n):
            _check_offset(off, field_offset_tree(body, i, start_n), ctx.extra, "field %d (%s) of %s base %s (asked after base %s)" % (i, f.name, name, base_n, base))
    if body[0] == "union" and len(got) > 1:
        first = got[0][1]
        for f, off in got[1:]:
            require(off.min == first.min and off.max == first.max and set(off % 64) == set(first % 64), "union-variants-share-offset", str(first), str(off), name)
    # default base is {0}
    got0, _ = guarded(lambda: list(t.iterate_fields_with_offsets()), what="iterate_fields_with_offsets-default")
    start0: typing.Any = ("leaf", (32,)) if spec[0] == "delim" else ("leaf", (0,))
    require([f for f, _ in got0] == list(fields) and all(f is g for (f, _), g in zip(got0, fields)), "field-count:default-base", [x.name for x in fields], [f.name for f, _ in got0], name)
    for i, (f, off) in enumerate(got0):
        _check_offset(off, field_offset_tree(body, i, start0), ctx.extra, "field %d of %s default base" % (i, name))
    # ground truth from real encodings (reference encoder): start bit of every top-level field is in the reported set
    header = spec[0] == "delim"
    for v in case["values"]:
        enc = codec.encode(spec, v, with_header=header)
        starts = {p[0]: s for p, s in enc.field_starts if len(p) == 1}
        if body[0] == "union":
            (vname,) = v.keys()
            idx = [n for n, _ in body[1]].index(vname)
            keys = [(idx, vname)]
        else:
            keys = [(i, (n or i)) for i, (n, _) in enumerate(body[1])]
        for i, key in keys:
            if key not in starts:
                continue
            pos = starts[key]
            off = got0[i][1]
            ok = off.min <= pos <= off.max and (pos % 8) in set(off % 8) and (pos % 64) in set(off % 64)
            small = rbls.expansion_tractable(rbls.freeze(field_offset_tree(body, i, start0)), 2000, 50_000, 300_000)
            if ok and small:
                ok = pos in set(off)
            require(ok, "real-position-not-in-offset-set", "element of %s" % off, pos, "field %r of %s value %r" % (key, name, v))
            ctx.extra["ground_truth_positions"] = ctx.extra.get("ground_truth_positions", 0) + 1

    multi_base = len(set(base)) > 1
    preceded = False
    if body[0] == "struct":
        seen_var = seen_sub = False
        for n, ft in body[1]:
            if seen_var and seen_sub and n:
                preceded = True
            try:
                if not (rbls.vmin(layout.tree(ft)) == rbls.vmax(layout.tree(ft))):
                    seen_var = True
            except rbls.TooBig:
                seen_var = True
            if layout.alignment(ft) == 1 and rbls.vmax(layout.tree(ft)) % 8:
                seen_sub = True
    classes = ["top:" + spec[0], "base:%s" % ("multi" if multi_base else "aligned" if all(x % 8 == 0 for x in base) else "unaligned")]
    if preceded:
        classes.append("after-variable-and-subbyte")
    return Info(multi_base or preceded, classes, sample={"type": name, "base": base})


def check_array_offsets(case: typing.Any, ctx: Ctx) -> Info:
    import pydsdl

    spec = layout.freeze(case["spec"])
    base = case["base"]
    builder = ApiBuilder()
    t, _ = guarded(builder.build, spec, what="construct")
    name = layout.type_string(spec)[:300]
    got, _ = guarded(lambda: list(t.enumerate_elements_with_offsets(pydsdl.BitLengthSet(base))), what="enumerate_elements_with_offsets")
    require([i for i, _ in got] == list(range(spec[2])), "element-indices", list(range(spec[2])), [i for i, _ in got], name)
    a = layout.alignment(spec)
    start: typing.Any = _base_tree(base)
    if a > 1:
        start = ("pad", start, a)
    for i, off in got:
        _check_offset(off, ("cat", (start, ("rep", layout.tree(spec[1]), i))), ctx.extra, "element %d of %s base %s" % (i, name, base))
    multi_base = len(set(base)) > 1
    return Info(multi_base or layout.is_composite(spec[1]), ["array", "elem:" + spec[1][0]], sample={"type": name, "base": base})


_SET_RE = re.compile(r"^\{(.*)\}$")


def parse_printed_set(text: str) -> typing.Optional[typing.Set[int]]:
    m = _SET_RE.match(text.strip())
    if not m:
        return None
    try:
        return {int(x) for x in m.group(1).split(",")}
    except ValueError:
        return None


def check_intrinsics(case: typing.Any, ctx: Ctx) -> Info:
    import pydsdl

    spec = case["spec"]
    d = ctx.scratch()
    try:
        tb = TextBuilder(d)
        tb.emit(spec)
        top_spec, top_fn = tb.order[-1]
        body = top_spec[1] if top_spec[0] == "delim" else top_spec
        fbody = layout.freeze(body)
        # rebuild the top-level file with intrinsic queries
        lines: typing.List[str] = []
        expected: typing.Dict[int, typing.Tuple[str, typing.Any]] = {}

        def emit_query(expr: str, kind: str, value: typing.Any) -> None:
            lines.append("@print " + expr)
            expected[len(lines)] = (kind, value)

        def try_explicit(tree: typing.Any) -> typing.Optional[typing.Set[int]]:
            tr = rbls.freeze(tree)
            if not rbls.expansion_tractable(tr, 1500, 50_000, 300_000):
                return None
            return set(rbls.explicit(tr))

        def emit_section(sec_spec: typing.Any, sealed_pos: typing.Optional[int]) -> None:
            sbody = sec_spec[1] if sec_spec[0] == "delim" else sec_spec
            fsb = layout.freeze(sbody)
            # @sealed may stand anywhere in its section (unlike @extent, which closes it): before the first field, between two fields...
            sealed_at = None
            if sec_spec[0] != "delim" and sealed_pos is not None:
                sealed_at = sealed_pos % (len(sbody[1]) + 1)
                if sealed_at == len(sbody[1]):
                    sealed_at = None  # the usual place, after the last field
            if fsb[0] == "union":
                lines.append("@union")
            if fsb[0] == "struct":
                emit_query("_offset_", "set", {0})
            for i, (fname, ft) in enumerate(sbody[1]):
                if sealed_at == i:
                    lines.append("@sealed")
                    if fsb[0] == "struct":
                        s0 = try_explicit(layout.struct_body(fsb[1], upto=i)) if i else {0}
                        if s0 is not None:
                            emit_query("_offset_", "set", s0)
                lines.append((dsdl_type_text(ft, tb.refs) + " " + fname).strip())
                if fsb[0] == "struct":
                    s = try_explicit(layout.struct_body(fsb[1], upto=i + 1))
                    if s is not None:
                        emit_query("_offset_", "set", s)
            if fsb[0] == "union":
                s = try_explicit(layout.union_body(fsb[1]))
                if s is not None:
                    emit_query("_offset_", "set", s)
            if sec_spec[0] == "delim":
                lines.append("@extent %d" % layout.extent(layout.freeze(sec_spec)))
            elif sealed_at is None:
                lines.append("@sealed")

        response = case.get("response")
        if case.get("mirror_kind"):
            # a service whose response has exactly the fields of its request but is the other kind of composite (structure <-> union):
            # the same sequence of field types, entirely different offsets
            mb = top_spec[1] if top_spec[0] == "delim" else top_spec
            if len(mb[1]) >= 2 and all(ft[0] != "void" for _, ft in mb[1]):
                response = ["union" if mb[0] == "struct" else "struct", [[fn_, ft] for fn_, ft in mb[1]]]
        n_deps = len(tb.order) - 1
        if response is not None:
            # the response's own dependencies are emitted too (its fields may be composites)
            rbody = response[1] if response[0] == "delim" else response
            for _, ft in rbody[1]:
                tb.emit(ft)
        emit_section(top_spec, case.get("sealed_pos"))
        deps = [x for x in tb.order if x[1] != top_fn]
        for dep_spec, dep_fn in deps:
            ref = dep_fn[: -len(".dsdl")]
            fdep = layout.freeze(dep_spec)
            s = try_explicit(layout.tree(fdep))
            if s is not None:
                emit_query("%s._bit_length_" % ref, "set", s)
            emit_query("%s._extent_" % ref, "int", layout.extent(fdep))
        if response is not None:
            # a service: the response section starts from scratch (no field of the request is before any of its points)
            lines.append("---")
            emit_section(response, case.get("sealed_pos_response"))
        tb.files[top_fn] = "\n".join(lines) + "\n"
        root = tb.write()
        prints: typing.List[typing.Tuple[str, int, str]] = []
        types, _ = guarded(
            pydsdl.read_namespace, root, [], print_output_handler=lambda p, l, t: prints.append((str(p), l, t)), what="read_namespace"
        )
        got: typing.Dict[int, typing.List[str]] = {}
        for p, l, t in prints:
            got.setdefault(l, []).append(t)
        text = tb.files[top_fn]
        for line, (kind, value) in expected.items():
            if value is None:
                continue
            require(line in got, "print-missing", "output for line %d" % line, sorted(got), text)
            for out in got[line]:
                if kind == "set":
                    s = parse_printed_set(out)
                    require(s == value, "intrinsic:" + lines[line - 1].split()[-1].split(".")[-1], sorted(value), out, "line %d of\n%s" % (line, text))
                else:
                    require(out.strip() == str(value), "intrinsic:_extent_", value, out, "line %d of\n%s" % (line, text))
        # and the API agrees with the intrinsics
        by_name = {t.short_name: t for t in types}
        for dep_spec, dep_fn in tb.order:
            t = by_name[dep_fn.split(".")[0]]
            if isinstance(t, pydsdl.ServiceType):
                t = t.request_type
            require(t.extent == layout.extent(layout.freeze(dep_spec)), "extent", layout.extent(layout.freeze(dep_spec)), t.extent, dep_fn)
    finally:
        ctx.cleanup(d)
    n_queries = sum(1 for v in expected.values() if v[1] is not None)
    return Info(n_queries >= 2, ["text", "top:" + top_spec[0], "queries:%d" % min(n_queries, 6)] + (["service"] if case.get("response") is not None else []), sample={"file": text})


def _cases() -> st.SearchStrategy:
    def with_values(spec: typing.Any) -> st.SearchStrategy:
        return st.fixed_dictionaries(
            {
                "spec": st.just(spec),
                "base": st.one_of(
                    st.sampled_from([[0], [8], [1], [5], [0, 8], [3, 8, 77], [7, 9]]),
                    st.lists(st.integers(0, 130), min_size=1, max_size=3, unique=True).map(sorted),
                ),
                "values": st.lists(gt.values(layout.freeze(spec)), min_size=1, max_size=4),
                "abandon": st.one_of(st.just([]), st.lists(st.integers(0, 40), min_size=1, max_size=3)),
            }
        ).flatmap(lambda c: more_bases(c["base"]).map(lambda m: dict(c, more_bases=m)))

    def more_bases(base: typing.List[int]) -> st.SearchStrategy:
        lookalike = st.tuples(st.integers(2, 5), st.lists(st.integers(1, 4), min_size=1, max_size=2)).map(
            lambda t: sorted({base[0], base[0] + 32 * t[0]} | {base[0] + 32 * (j % t[0]) for j in t[1]})
        )
        # [sparse, dense] pairs agreeing in min / max / residues mod 32, the drawn base itself again, or an unrelated one
        pair = st.tuples(st.integers(2, 5), st.integers(1, 4), st.booleans()).map(
            lambda t: (lambda sparse, dense: [sparse, dense] if t[2] else [dense, sparse])([base[0], base[0] + 32 * t[0]], sorted({base[0], base[0] + 32 * (t[1] % t[0] or 1), base[0] + 32 * t[0]}))
        )
        return st.one_of(st.just([]), lookalike.map(lambda b: [b]), pair, st.lists(st.integers(0, 130), min_size=1, max_size=3, unique=True).map(lambda b: [sorted(b)]))

    from . import c02

    return st.one_of(gt.composites(gt.small_capacity(), max_leaves=8), gt.composites(gt.small_capacity(), max_leaves=8), c02._stress_specs()).flatmap(with_values)


def _array_cases() -> st.SearchStrategy:
    elem = st.one_of(gt.primitive(), gt.composites(gt.small_capacity(), max_leaves=4))
    return st.fixed_dictionaries(
        {
            "spec": st.tuples(elem, st.integers(1, 6)).map(lambda t: ["fixed", t[0], t[1]]),
            "base": st.lists(st.integers(0, 130), min_size=1, max_size=3, unique=True).map(sorted),
        }
    )


def parts(ctx: Ctx) -> typing.List[Part]:
    return [
        Part("offsets", _cases(), check_offsets, weight=5),
        Part("array-elements", _array_cases(), check_array_offsets, weight=1),
        Part(
            "intrinsics",
            st.fixed_dictionaries({"spec": gt.composites(gt.small_capacity(), max_leaves=6), "response": st.one_of(st.none(), gt.composites(gt.small_capacity(), max_leaves=4)),
                                   "sealed_pos": st.one_of(st.none(), st.integers(0, 8)), "sealed_pos_response": st.one_of(st.none(), st.integers(0, 8)),
                                   "mirror_kind": st.sampled_from([False, False, False, True])}),
            check_intrinsics, weight=2, cost=5.0,
        ),
    ]
