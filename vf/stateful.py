"""Base class for the rule-based state machines: the history of steps is recorded as plain data, so that the shrunk
failing history is the replay file and `run.py replay` re-executes it without the library."""
from __future__ import annotations

import typing

from hypothesis.stateful import RuleBasedStateMachine

from .core import Info


class HistoryMachine(RuleBasedStateMachine):
    hooks: typing.Any = None  # set by the factory (vf.worker.run_part)
    ctx: typing.Any = None

    def __init__(self) -> None:
        super().__init__()
        self.history: typing.List[typing.Any] = []
        self.dead = False  # a step failed in a known way: the rest of this history is not interpreted
        self.state = self.initial_state()

    # --- to be provided by the property module
    def initial_state(self) -> typing.Any:
        raise NotImplementedError

    def apply(self, state: typing.Any, step: typing.Any) -> None:
        raise NotImplementedError

    def info(self) -> Info:
        return Info()

    # --- used by rules
    def step(self, step: typing.Any) -> None:
        if self.dead:
            return
        self.history.append(step)
        ok, _ = self.hooks.guard(list(self.history), lambda: self.apply(self.state, step))
        if not ok:
            self.dead = True

    def teardown(self) -> None:
        if self.history:
            self.hooks.done(list(self.history), None if self.dead else self.info())
        self.cleanup()

    def cleanup(self) -> None:
        pass
