"""Offline installation of the third-party packages the checks need (hypothesis, optionally atheris/jsonschema).

A fresh restore contains committed files only, so every check calls ensure() first.  Packages are installed
from the offline wheelhouse into /verif/.deps (never into /venv, never from the network).
"""
import importlib
import os
import subprocess
import sys

VERIF = os.path.dirname(os.path.dirname(os.path.abspath(__file__)))
DEPS = os.path.join(VERIF, ".deps")
WHEELS = "/opt/veriftools/wheels"


def _can_import(mod: str) -> bool:
    code = "import sys; sys.path.insert(0, %r); import %s" % (DEPS, mod)
    return subprocess.run([sys.executable, "-c", code], capture_output=True).returncode == 0


def ensure(optional: bool = False) -> dict:
    """Returns {module: available}.  hypothesis is mandatory; atheris and jsonschema are optional."""
    out = {}
    wanted = ["hypothesis"] + (["atheris", "jsonschema"] if optional else [])
    for mod in wanted:
        ok = _can_import(mod)
        if not ok:
            os.makedirs(DEPS, exist_ok=True)
            env = dict(os.environ, PIP_NO_INDEX="1")
            subprocess.run(
                [sys.executable, "-m", "pip", "install", "--quiet", "--no-index", "--find-links", WHEELS,
                 "--target", DEPS, "--upgrade", mod],
                env=env, capture_output=True,
            )
            importlib.invalidate_caches()
            ok = _can_import(mod)
        out[mod] = ok
    if not out["hypothesis"]:
        raise RuntimeError("hypothesis could not be imported nor installed from %s" % WHEELS)
    return out
