#!/venv/bin/python
"""Summarises evidence/thorough/<id>.json (written by tools/thorough.sh) as a markdown table."""
import json, os
VERIF = os.path.dirname(os.path.dirname(os.path.abspath(__file__)))
d = os.path.join(VERIF, "evidence", "thorough")
print("# Thorough-tier runs on the unchanged tree\n")
print("Written by `tools/thorough.sh` (one `./run.py check <id> --tier thorough` per property, 16 shards each); the full evidence of each run")
print("is `evidence/thorough/<id>.json`, its output `evidence/thorough/<id>.log`.\n")
print("| property | repo revision | seed | cases | distinct non-trivial | fuzz executions | violations | known findings hit | shards ok | inconclusive shards | wall s |")
print("|---|---|---|---|---|---|---|---|---|---|---|")
tot = 0
for fn in sorted(os.listdir(d)):
    if not fn.endswith(".json"):
        continue
    e = json.load(open(os.path.join(d, fn)))
    c = e["coverage"]
    fuzz = sum(p.get("fuzz_execs", 0) for p in c["parts"].values())
    tot += c["evaluations"]
    print("| %s | %s | %s | %d | %d | %s | %d | %s | %d/%d | %d | %.0f |" % (
        e["property_id"], c.get("repo_revision", ""), e["seed"], c["evaluations"], c["distinct_nontrivial"], fuzz or "-", e["violations"],
        ", ".join("%s x%d" % (k[:50], v) for k, v in c.get("excluded_known", {}).items()) or "-",
        c["shards_completed"], c["shards"], c["shards_inconclusive"], e["wall_s"]))
print("\nTotal cases: %d\n" % tot)
print("## Parts\n")
print("For a `cover-<part>` row the columns `cases` / `non-trivial` count the campaign's executions plus the sample of its non-trivial cases that")
print("the worker re-ran through the plain check (every 50th); the campaign's own count of non-trivial cases is in the last column.\n")
print("| property | part | cases | non-trivial | slowest case s | timeouts | fuzz executions (corpora; notes) |")
print("|---|---|---|---|---|---|---|")
for fn in sorted(os.listdir(d)):
    if not fn.endswith(".json"):
        continue
    e = json.load(open(os.path.join(d, fn)))
    for k, p in e["coverage"]["parts"].items():
        fz = "-"
        if "fuzz_execs" in p or "fuzz_notes" in p:
            fz = "%d%s (%s%s)" % (p.get("fuzz_execs", 0), (", %d non-trivial in the campaign" % p["fuzz_nontrivial"]) if "fuzz_nontrivial" in p else "", ("48 generated buffers per shard" if k.startswith("cover-") else "+".join(p.get("fuzz_corpora", []))), ("; " + "; ".join(p["fuzz_notes"])) if p.get("fuzz_notes") else "")
        print("| %s | %s | %d | %d | %.2f | %d | %s |" % (e["property_id"], k, p["evaluations"], p["nontrivial"], p.get("slowest_s", 0), p.get("timeouts", 0), fz))
