#!/venv/bin/python
"""Sensitivity experiments: apply one textual mutation to a scratch copy of the repository (under /dev/shm, removed
afterwards) and run a check's tier against it via VERIF_REPO.  Never touches /repo.

    tools/mut.py run <PROP> <relative file> <old text> <new text> [--scale F] [--tier quick] [--suite]
    tools/mut.py batch <json file> [--only PROP] [--suite]      entries: {"prop","file","old","new","name"}
"""
import argparse
import json
import os
import shutil
import subprocess
import sys
import tempfile
import time

VERIF = os.path.dirname(os.path.dirname(os.path.abspath(__file__)))


def make_copy() -> str:
    d = tempfile.mkdtemp(prefix="pydsdl-mut-", dir="/dev/shm")
    subprocess.run(["rsync", "-a", "--exclude", ".git", "--exclude", "__pycache__", "--exclude", ".nox", "--exclude", "*.egg-info",
                    "--exclude", "pytest.log", "/repo/", d + "/"], check=True)
    return d


def apply(copy: str, rel: str, old: str, new: str) -> None:
    p = os.path.join(copy, rel)
    s = open(p).read()
    if s.count(old) != 1:
        raise SystemExit("mutation anchor occurs %d times in %s: %r" % (s.count(old), rel, old))
    open(p, "w").write(s.replace(old, new))


def run_check(copy: str, prop: str, tier: str, scale: float, seed: int = 1):
    env = dict(os.environ, VERIF_REPO=copy, VERIF_SEED=str(seed), VERIF_EVIDENCE_DIR=os.path.join(copy, ".verif-evidence"))
    t = time.time()
    p = subprocess.run([os.path.join(VERIF, "run.py"), "check", prop, "--tier", tier, "--scale", str(scale)], env=env,
                       capture_output=True, text=True)
    return p.returncode, p.stdout + p.stderr, time.time() - t


def run_suite(copy: str):
    env = dict(os.environ, PYTHONPATH=copy)
    p = subprocess.run(["/venv/bin/python", "-m", "pytest", "-q", "-x", "-p", "no:cacheprovider", "--timeout=900", "-n", "8",
                        "--continue-on-collection-errors"], cwd=copy, env=env, capture_output=True, text=True)
    tail = (p.stdout.strip().splitlines() or [""])[-1]
    return p.returncode, tail


LAST: dict = {}


def one(prop, rel, old, new, tier, scale, suite, name=""):
    copy = make_copy()
    try:
        apply(copy, rel, old, new)
        suite_res = run_suite(copy) if suite else None
        rc, out, dt = run_check(copy, prop, tier, scale)
        sigs = [l.strip() for l in out.splitlines() if l.strip().startswith("signature:")]
        print("%-6s %-40s rc=%d %5.1fs suite=%s  %s" % (prop, name or rel, rc, dt, suite_res, "; ".join(sigs)[:200]))
        if rc == 2:
            print(out[-1500:])
        LAST.update(rc=rc, seconds=round(dt, 1), signatures=[x[len('signature:'):].strip() for x in sigs][:4], suite=suite_res[1] if suite_res else None)
        return rc, suite_res
    finally:
        shutil.rmtree(copy, ignore_errors=True)
        # found-* replays written against a mutant are not kept
        rd = os.path.join(VERIF, "replays", prop)
        if os.path.isdir(rd):
            for fn in os.listdir(rd):
                if fn.startswith("found-"):
                    os.remove(os.path.join(rd, fn))


def main() -> int:
    ap = argparse.ArgumentParser()
    sub = ap.add_subparsers(dest="cmd", required=True)
    r = sub.add_parser("run")
    r.add_argument("prop"); r.add_argument("file"); r.add_argument("old"); r.add_argument("new")
    b = sub.add_parser("batch")
    b.add_argument("json"); b.add_argument("--only", default=""); b.add_argument("--out", default="")
    for x in (r, b):
        x.add_argument("--scale", type=float, default=1.0)
        x.add_argument("--tier", default="quick")
        x.add_argument("--suite", action="store_true")
    a = ap.parse_args()
    if a.cmd == "run":
        rc, _ = one(a.prop, a.file, a.old, a.new, a.tier, a.scale, a.suite)
        return 0 if rc == 1 else 1
    entries = json.load(open(a.json))
    missed = 0
    results = []
    for e in entries:
        if a.only and e["prop"] != a.only:
            continue
        try:
            rc, _ = one(e["prop"], e["file"], e["old"], e["new"], a.tier, a.scale, a.suite, e.get("name", ""))
        except SystemExit as ex:
            print("%-6s %-40s SKIPPED: %s" % (e["prop"], e.get("name", ""), str(ex)[:100]))
            continue
        missed += rc != 1
        results.append(dict(prop=e["prop"], name=e.get("name", ""), file=e["file"], detected=rc == 1, **LAST))
        if a.out:
            json.dump(results, open(a.out, "w"), indent=1)
        sys.stdout.flush()
    print("missed: %d" % missed)
    return 0


if __name__ == "__main__":
    sys.exit(main())
