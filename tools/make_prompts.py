#!/venv/bin/python
"""Writes the sub-agent prompts of a seeded-defect round: tools/make_prompts.py <base dir> C01 C02 ...
The prompt (tools/seed_prompt.txt) contains the text of one property and the path of the agent's own worktree <base>/<ID> - nothing about
the checks.  Worktrees are created with `git -C /repo worktree add --detach <base>/<ID> HEAD` and removed after adoption."""
import json, os, sys
VERIF = os.path.dirname(os.path.dirname(os.path.abspath(__file__)))
base = sys.argv[1]
props = {json.loads(l)["id"]: json.loads(l) for l in open(os.path.join(VERIF, "properties.jsonl")) if l.strip()}
T = open(os.path.join(VERIF, "tools", "seed_prompt.txt")).read()
for pid in sys.argv[2:]:
    p = props[pid]
    with open(os.path.join(base, "prompt_%s.txt" % pid), "w") as f:
        f.write(T.format(wt=os.path.join(base, pid), base=base, pid=pid, title=p["title"], statement=p["statement"], quantifier=p["quantifier"]["text"]))
print("wrote %d prompts under %s" % (len(sys.argv) - 2, base))
