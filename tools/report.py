#!/venv/bin/python
"""Prints the markdown tables of DESIGN.md section 10 from seeded/*/meta.json and tools/mutant_results.txt."""
import json, os, re, sys
VERIF = os.path.dirname(os.path.dirname(os.path.abspath(__file__)))
rows = []
for n in sorted(os.listdir(os.path.join(VERIF, "seeded"))):
    mp = os.path.join(VERIF, "seeded", n, "meta.json")
    if not os.path.exists(mp) or n.endswith(".rejected"):
        continue
    m = json.load(open(mp))
    notes = (m.get("needs_to_manifest") or "").strip().splitlines()
    first = next((l.strip() for l in notes if l.strip() and not set(l.strip()) <= set("=-")), "")
    first = re.sub(r"^(Change|SEEDED CHANGE|Seed)\s*\(?[ab]\)?\s*[:\-]*\s*", "", first)[:150]
    q = m.get("check_quick", {})
    rows.append("| %s | %s | %s | %s | %s |" % (n, m["property"], first.replace("|", "/"), "yes" if q.get("rc") == 1 else "NO (rc %s)" % q.get("rc"), ", ".join(q.get("signatures", [])[:2])[:90].replace("|", "/")))
print("| seed | property | what the change is (first line of the author's note) | quick check detects | signatures |")
print("|---|---|---|---|---|")
print("\n".join(rows))
