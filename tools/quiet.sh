#!/bin/bash
# Runs every check's quick tier at several seeds on the unchanged tree; any non-zero exit is a problem of the machinery.
cd "$(dirname "$0")/.."
seeds="${@:-1 2 3}"
for seed in $seeds; do
  for p in C01 C02 C03 C04 C05 C06 C07 C08 C09 C10 C11 C12 C13 C14 C15 C16 C17 C18 C19; do
    out=$(VERIF_SEED=$seed ./run.py check $p --tier quick 2>&1); rc=$?
    line=$(echo "$out" | grep -E "^$p quick" | head -1)
    echo "seed=$seed rc=$rc $line"
    if [ $rc -ne 0 ]; then echo "$out" | grep -E "VIOLATION|signature|HARNESS" | head -5; fi
    echo "$out" | grep -E "timeouts=" | head -2
  done
done
