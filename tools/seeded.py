#!/venv/bin/python
"""Seeded-defect bookkeeping.

    tools/seeded.py adopt <PROP> <worktree SEED dir> <letter>     verify a sub-agent's change and keep it as seeded/<PROP>-<letter>/
    tools/seeded.py run [<name> ...] [--tier quick] [--scale F]   run the owning check against every kept change (scratch copy)

A change is kept only after it has been confirmed here: the patch applies to the current /repo HEAD, the repository's
suite still passes with it, the demonstration fails with it and passes without it.
"""
import argparse
import json
import os
import shutil
import subprocess
import sys
import tempfile
import time

VERIF = os.path.dirname(os.path.dirname(os.path.abspath(__file__)))
SEEDED = os.path.join(VERIF, "seeded")
PY = "/venv/bin/python"


def scratch_copy() -> str:
    d = tempfile.mkdtemp(prefix="pydsdl-seed-", dir="/dev/shm")
    subprocess.run("git -C /repo archive HEAD | tar -x -C %s" % d, shell=True, check=True)
    return d


def apply_patch(copy: str, patch: str) -> bool:
    p = subprocess.run(["patch", "-p1", "-s", "-i", patch], cwd=copy, capture_output=True, text=True)
    return p.returncode == 0


def run_suite(copy: str):
    p = subprocess.run([PY, "-m", "pytest", "-q", "-p", "no:cacheprovider", "--timeout=900", "-n", "8"], cwd=copy,
                       env=dict(os.environ, PYTHONPATH=copy), capture_output=True, text=True)
    tail = (p.stdout.strip().splitlines() or [""])[-1]
    return p.returncode, tail


def run_demo(copy: str, demo: str):
    p = subprocess.run([PY, demo], cwd=os.path.dirname(demo), env=dict(os.environ, PYTHONPATH=copy), capture_output=True, text=True, timeout=600)
    return p.returncode, (p.stdout + p.stderr)[-600:]


def run_check(copy: str, prop: str, tier: str, scale: float, seed: int = 1):
    t = time.time()
    p = subprocess.run([os.path.join(VERIF, "run.py"), "check", prop, "--tier", tier, "--scale", str(scale)],
                       env=dict(os.environ, VERIF_REPO=copy, VERIF_SEED=str(seed), VERIF_EVIDENCE_DIR=os.path.join(copy, ".verif-evidence")),
                       capture_output=True, text=True)
    out = p.stdout + p.stderr
    sigs = [l.strip()[len("signature:"):].strip() for l in out.splitlines() if l.strip().startswith("signature:")]
    rd = os.path.join(VERIF, "replays", prop)
    if os.path.isdir(rd):
        for fn in os.listdir(rd):
            if fn.startswith("found-"):
                os.remove(os.path.join(rd, fn))
    return p.returncode, sigs, round(time.time() - t, 1), out


def adopt(prop: str, seed_dir: str, letter: str, suffix: str = "") -> int:
    name = "%s-%s%s" % (prop, suffix, letter)
    patch = os.path.join(seed_dir, "patch_%s.diff" % letter)
    demo = os.path.join(seed_dir, "demo_%s.py" % letter)
    notes = os.path.join(seed_dir, "notes_%s.txt" % letter)
    for f in (patch, demo):
        if not os.path.exists(f):
            print("%s: missing %s" % (name, f))
            return 1
    dest = os.path.join(SEEDED, name)
    os.makedirs(dest, exist_ok=True)
    shutil.copy(patch, os.path.join(dest, "patch.diff"))
    shutil.copy(demo, os.path.join(dest, "demo.py"))
    if os.path.exists(notes):
        shutil.copy(notes, os.path.join(dest, "notes.txt"))
    clean = scratch_copy()
    mutated = scratch_copy()
    meta = {"property": prop, "name": name, "ran": []}
    try:
        ok = apply_patch(mutated, os.path.join(dest, "patch.diff"))
        meta["patch_applies"] = ok
        if not ok:
            print("%s: patch does not apply" % name)
            shutil.rmtree(dest)
            return 1
        rc, tail = run_suite(mutated)
        meta["suite_with_change"] = tail
        meta["ran"].append("pytest -q -n 8 on a scratch copy with the patch: %s" % tail)
        rc_m, out_m = run_demo(mutated, os.path.join(dest, "demo.py"))
        rc_c, out_c = run_demo(clean, os.path.join(dest, "demo.py"))
        meta["demo_with_change_rc"] = rc_m
        meta["demo_without_change_rc"] = rc_c
        meta["demo_output_with_change"] = out_m[-300:]
        meta["ran"].append("demo.py with PYTHONPATH=<patched copy>: rc %d; with PYTHONPATH=<clean copy>: rc %d" % (rc_m, rc_c))
        confirmed = rc == 0 and rc_m != 0 and rc_c == 0
        meta["confirmed"] = confirmed
        if os.path.exists(notes):
            meta["needs_to_manifest"] = open(notes).read().strip()
        if not confirmed:
            print("%s: NOT confirmed (suite rc %d '%s', demo with %d / without %d)" % (name, rc, tail, rc_m, rc_c))
            json.dump(meta, open(os.path.join(dest, "meta.json"), "w"), indent=1)
            shutil.move(dest, dest + ".rejected") if not os.path.exists(dest + ".rejected") else shutil.rmtree(dest)
            return 1
        crc, sigs, dt, _ = run_check(mutated, prop, "quick", 1.0)
        meta["check_quick"] = {"rc": crc, "signatures": sigs, "seconds": dt}
        meta["ran"].append("run.py check %s --tier quick with VERIF_REPO=<patched copy>: rc %d %s" % (prop, crc, sigs[:3]))
        json.dump(meta, open(os.path.join(dest, "meta.json"), "w"), indent=1)
        print("%s: confirmed; quick check rc=%d %.0fs %s" % (name, crc, dt, "; ".join(sigs)[:160]))
        return 0
    finally:
        shutil.rmtree(clean, ignore_errors=True)
        shutil.rmtree(mutated, ignore_errors=True)


def run(names, tier: str, scale: float) -> int:
    names = names or sorted(n for n in os.listdir(SEEDED) if os.path.exists(os.path.join(SEEDED, n, "meta.json")) and not n.endswith(".rejected"))
    missed = 0
    for n in names:
        dest = os.path.join(SEEDED, n)
        meta = json.load(open(os.path.join(dest, "meta.json")))
        copy = scratch_copy()
        try:
            if not apply_patch(copy, os.path.join(dest, "patch.diff")):
                print("%-10s patch no longer applies" % n)
                continue
            owner = meta.get("property_checked_by", meta["property"])
            rc, sigs, dt, _ = run_check(copy, owner, tier, scale)
            used = scale
            if rc != 1 and scale < 1.0:
                # a reduced budget explores a prefix of what the full budget explores (same shard seeds), so a detection at a reduced
                # scale stands for the full check; a miss does not, and is repeated with the full budget
                rc, sigs, dt2, _ = run_check(copy, owner, tier, 1.0)
                dt, used = dt + dt2, 1.0
            meta["check_%s" % tier] = {"rc": rc, "signatures": sigs, "seconds": dt, "scale": used}
            json.dump(meta, open(os.path.join(dest, "meta.json"), "w"), indent=1)
            print("%-10s rc=%d %6.1fs %s" % (n, rc, dt, "; ".join(sigs)[:170]))
            missed += rc != 1
        finally:
            shutil.rmtree(copy, ignore_errors=True)
        sys.stdout.flush()
    print("missed: %d of %d" % (missed, len(names)))
    return 0


def main() -> int:
    ap = argparse.ArgumentParser()
    sub = ap.add_subparsers(dest="cmd", required=True)
    a = sub.add_parser("adopt")
    a.add_argument("prop"); a.add_argument("seed_dir"); a.add_argument("letter"); a.add_argument("--suffix", default="")
    r = sub.add_parser("run")
    r.add_argument("names", nargs="*"); r.add_argument("--tier", default="quick"); r.add_argument("--scale", type=float, default=1.0)
    args = ap.parse_args()
    if args.cmd == "adopt":
        return adopt(args.prop, args.seed_dir, args.letter, args.suffix)
    return run(args.names, args.tier, args.scale)


if __name__ == "__main__":
    sys.exit(main())
