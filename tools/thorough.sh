#!/bin/bash
# Runs the thorough tier of every check (or of those named) on the unchanged tree, keeps each evidence file as evidence/thorough/<id>.json
# and writes the summary evidence/THOROUGH.md.  Any non-zero exit on the unchanged tree is a problem of the machinery (or a new finding).
cd "$(dirname "$0")/.."
props="${@:-C01 C02 C03 C04 C05 C06 C07 C08 C09 C10 C11 C12 C13 C14 C15 C16 C17 C18 C19}"
mkdir -p evidence/thorough
for p in $props; do
  t0=$(date +%s)
  out=$(VERIF_SEED=${VERIF_SEED:-1} ./run.py check $p --tier thorough 2>&1); rc=$?
  echo "$out" > evidence/thorough/$p.log
  echo "$p rc=$rc $(( $(date +%s) - t0 ))s $(echo "$out" | grep -E "^$p thorough" | head -1)"
  echo "$out" | grep -E "^VIOLATION|^KNOWN-FINDING|HARNESS" | cut -c1-200
  if [ -f evidence/$p.json ]; then cp evidence/$p.json evidence/thorough/$p.json; fi
done
/venv/bin/python tools/thorough_summary.py > evidence/THOROUGH.md
