#!/usr/bin/env python3-vt
import json, sys, os, glob
# run with python3-vt (the tooling venv has jsonschema); /verif/.deps holds wheels for /venv only
import jsonschema
schema = json.load(open("/root/.vp/EVIDENCE.schema.json"))
for f in sorted(glob.glob("/verif/evidence/*.json") + glob.glob("/verif/evidence/thorough/*.json")):
    try:
        jsonschema.validate(json.load(open(f)), schema); print("ok  ", f)
    except Exception as e:
        print("BAD ", f, str(e)[:300])
