#!/venv/bin/python
import json, sys, os, glob
sys.path.insert(0, "/verif/.deps")
import jsonschema
schema = json.load(open("/root/.vp/EVIDENCE.schema.json"))
for f in sorted(glob.glob("/verif/evidence/*.json")):
    try:
        jsonschema.validate(json.load(open(f)), schema); print("ok  ", f)
    except Exception as e:
        print("BAD ", f, str(e)[:300])
