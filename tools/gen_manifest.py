#!/venv/bin/python
"""Regenerates /verif/MANIFEST.json from the property modules that exist under vf/props (one check per module);
properties without a module are listed under not_applicable with the reason 'check not built yet'."""
import importlib
import json
import os
import sys

VERIF = os.path.dirname(os.path.dirname(os.path.abspath(__file__)))
sys.path.insert(0, VERIF)

PY = "/venv/bin/python"

LEVEL_TEXT = {
    "C01": "Generated operator trees and query histories are decided against two independent set models (explicit sets; sumset powers in Z_d) that are cross-checked against each other; exploration, not proof: divisors <= 128 (plus sampled huge ones) and trees <= 8 leaves.",
    "C02": "Generated type specs (API and DSDL text) and an enumerated grid of prefix/tag boundaries are compared with the Specification's layout evaluated by independent set models; exploration bounded by nesting <= ~4 and explicit sets <= 5000.",
}
TECHNIQUE = {
    "C01": "property-based testing (Hypothesis @given + rule-based state machine) against reference set models",
    "C02": "property-based testing (Hypothesis) + exhaustive boundary grid against a Specification layout model",
}
NOTE = "Trusted base: CPython, fractions, Hypothesis, the reference models in vf/ref (cross-checked where two exist); bounds as stated in the evidence file's rule/assumptions."


def main() -> int:
    props = [json.loads(l) for l in open(os.path.join(VERIF, "properties.jsonl")) if l.strip()]
    checks = []
    na = []
    extra = {}
    try:
        extra = json.load(open(os.path.join(VERIF, "tools", "manifest_texts.json")))
    except FileNotFoundError:
        pass
    for p in props:
        pid = p["id"]
        modpath = os.path.join(VERIF, "vf", "props", pid.lower() + ".py")
        if not os.path.exists(modpath):
            na.append({"property_id": pid, "reason": "check not built yet (planned in DESIGN.md section 5); nothing is claimed for it so far"})
            continue
        texts = extra.get(pid, {})
        checks.append(
            {
                "property_id": pid,
                "quick_cmd": "%s run.py check %s --tier quick" % (PY, pid),
                "thorough_cmd": "%s run.py check %s --tier thorough" % (PY, pid),
                "evidence_file": "evidence/%s.json" % pid,
                "replay_cmd_template": "%s run.py replay %s --replay {path}" % (PY, pid),
                "engine": "hypothesis",
                "level_claimed": {
                    "category": "exploration",
                    "text": texts.get("level", LEVEL_TEXT.get(pid, "Generated-input search against an explicit oracle; bounds in the evidence file.")),
                    "design_ref": "DESIGN.md section 5, %s" % pid,
                },
                "level_note": texts.get("note", NOTE),
                "technique": texts.get("technique", TECHNIQUE.get(pid, "property-based testing (Hypothesis) against a reference model")),
            }
        )
    manifest = {
        "version": 1,
        "setup_cmd": "%s run.py setup" % PY,
        "hooks": {
            "guard": "PYDSDL_VERIF",
            "enable": "none needed: observation is through the public API and in-process monkeypatching inside the worker processes; checks import /repo's working tree directly (PYTHONPATH=/repo), one fresh interpreter per shard",
            "baseline_off_cmd": "cd /repo && /venv/bin/python -m pytest -ra -q -p no:cacheprovider --timeout=900 --continue-on-collection-errors",
            "source_commits": [],
            "add_only": True,
        },
        "engines": [
            {"name": "hypothesis", "path": "vf/", "serves_properties": [c["property_id"] for c in checks],
             "kind_free_text": "Hypothesis 6.168 strategies and rule-based state machines; 16 shards in fresh interpreters; replay bypasses the library"},
            {"name": "atheris", "path": "vf/fuzz/", "serves_properties": ["C01", "C02", "C03", "C04", "C05", "C06", "C07", "C08", "C11", "C12", "C13", "C14", "C17"],
             "kind_free_text": "thorough tier only: atheris / libFuzzer campaigns in child processes - byte-level targets (C07, C13) and the Hypothesis strategies driven through fuzz_one_input under coverage feedback (cover-<part>); the oracle is the part's plain check function"},
        ],
        "checks": checks,
        "notes": "run.py check <ID> --tier quick|thorough [--seed N]; VERIF_SEED is honoured; exit 0 / 1 (VIOLATION line) / 2 (HARNESS-ERROR). known_findings.json lists recorded and fixed defects.",
        "not_applicable": na,
    }
    with open(os.path.join(VERIF, "MANIFEST.json"), "w") as f:
        json.dump(manifest, f, indent=1)
    try:
        sys.path.insert(0, os.path.join(VERIF, ".deps"))
        import jsonschema

        jsonschema.validate(manifest, json.load(open("/root/.vp/MANIFEST.schema.json")))
        print("MANIFEST.json valid: %d checks, %d not_applicable" % (len(checks), len(na)))
    except ImportError:
        print("jsonschema not available; MANIFEST.json written but not validated")
    return 0


if __name__ == "__main__":
    sys.exit(main())
