#!/venv/bin/python
"""Single entry point of the verification machinery.

    run.py setup
    run.py check <ID> --tier quick|thorough [--seed N] [--scale F] [--part NAME]
    run.py replay <ID> --replay <file>

Exit codes: 0 property held on everything explored; 1 + 'VIOLATION property=<id> replay=<path>'; 2 harness error.
"""
import argparse
import os
import sys

HERE = os.path.dirname(os.path.abspath(__file__))
sys.path.insert(0, HERE)
sys.dont_write_bytecode = True


def main() -> int:
    ap = argparse.ArgumentParser()
    sub = ap.add_subparsers(dest="cmd", required=True)
    sub.add_parser("setup")
    c = sub.add_parser("check")
    c.add_argument("prop")
    c.add_argument("--tier", default=os.environ.get("VERIF_TIER", "quick"), choices=["quick", "thorough"])
    c.add_argument("--seed", type=int, default=None)
    c.add_argument("--scale", type=float, default=1.0)
    c.add_argument("--shards", type=int, default=16)
    c.add_argument("--part", default="")
    r = sub.add_parser("replay")
    r.add_argument("prop")
    r.add_argument("--replay", required=True)
    a = ap.parse_args()
    os.chdir(HERE)
    from vf import deps

    if a.cmd == "setup":
        print(deps.ensure(optional=True))
        return 0
    from vf import runner

    if a.cmd == "check":
        seed = a.seed
        if seed is None:
            try:
                seed = int(os.environ.get("VERIF_SEED", "1"))
            except ValueError:
                seed = 1
        try:
            return runner.check(a.prop.upper(), a.tier, seed, nshards=a.shards, scale=a.scale, only_part=a.part)
        except Exception as ex:  # pylint: disable=broad-except
            import traceback

            traceback.print_exc()
            print("HARNESS-ERROR %s: %s" % (type(ex).__name__, ex))
            return 2
    return runner.replay(a.prop.upper(), a.replay)


if __name__ == "__main__":
    sys.exit(main())
